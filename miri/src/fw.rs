// the harness' PRNG (copy of harness/src/fw.rs::Rng; refm.rs refers to crate::fw::Rng)
pub struct Rng(pub u64);
impl Rng {
  pub fn keyed(seed: u64, key: &str) -> Rng {
    let mut h: u64 = 0xcbf29ce484222325 ^ seed.wrapping_mul(0x9E3779B97F4A7C15);
    for b in key.bytes() { h ^= b as u64; h = h.wrapping_mul(0x100000001b3); }
    let mut r = Rng(h);
    r.next(); r.next();
    r
  }
  pub fn next(&mut self) -> u64 {
    self.0 = self.0.wrapping_add(0x9E3779B97F4A7C15);
    let mut z = self.0;
    z = (z ^ (z >> 30)).wrapping_mul(0xBF58476D1CE4E5B9);
    z = (z ^ (z >> 27)).wrapping_mul(0x94D049BB133111EB);
    z ^ (z >> 31)
  }
  pub fn below(&mut self, n: u64) -> u64 { if n == 0 { 0 } else { self.next() % n } }
  pub fn range(&mut self, lo: i64, hi: i64) -> i64 { lo + self.below((hi - lo + 1) as u64) as i64 }
  pub fn chance(&mut self, num: u64, den: u64) -> bool { self.below(den) < num }
  pub fn pick<'a, T>(&mut self, v: &'a [T]) -> &'a T { &v[self.below(v.len() as u64) as usize] }
  pub fn shuffle<T>(&mut self, v: &mut Vec<T>) {
    for i in (1..v.len()).rev() { let j = self.below(i as u64 + 1) as usize; v.swap(i, j); }
  }
  pub fn unit(&mut self) -> f64 { (self.next() >> 11) as f64 / (1u64 << 53) as f64 }
}
