// mk: kernel-level monitor run under Miri (`cargo +nightly miri run`).
//
// The interpreter crate does not compile on the nightly toolchain Miri needs, so this crate links only
// mech-core and the machines/* crates and drives the *kernels* the interpreter dispatches to: every
// registered NativeFunctionCompiler is looked up through `inventory`, compiled on API-built operands,
// solved twice, and judged by value oracles (scalar twin in the same build, reference arithmetic, set algebra,
// arithmetic progressions) while Miri watches every raw-pointer dereference in the generated `solve()` bodies
// for undefined behaviour (out-of-bounds, use-after-free, uninitialised reads, invalid values, misaligned or
// dangling references, aliasing violations).
//
// Protocol (stdout, one line each):  `B <index> <case id>` before a case, `E <index> <json outcome>` after it,
// `DONE <n>` at the end.  A process that dies between B and E died inside that case (Miri prints the UB
// report on stderr); the driver attributes the report to the case and restarts the shard after it.
extern crate mech_combinatorics;
extern crate mech_compare;
extern crate mech_logic;
extern crate mech_math;
extern crate mech_matrix;
extern crate mech_range;
extern crate mech_set;
extern crate mech_stats;

#[path = "../../harness/src/canon.rs"]
#[allow(dead_code)]
mod canon;
mod fw;
#[path = "../../harness/src/refm.rs"]
#[allow(dead_code)]
mod refm;

use canon::*;
use fw::Rng;
use mech_core::*;
use refm::*;
use serde_json::json;
use std::collections::BTreeSet;

type Shape = Option<(usize, usize)>;

#[derive(Clone, Debug)]
enum K {
  /// elementwise binary kernel: fn name, operator symbol known to refm ("" = twin only), kind, lhs shape, rhs shape, reference flags
  Ew { f: &'static str, op: &'static str, k: &'static str, l: Shape, r: Shape, refs: (bool, bool) },
  /// unary kernel
  Un { f: &'static str, op: &'static str, k: &'static str, s: Shape, rf: bool },
  /// range kernel: inclusive?, stepped?, kind, (a, s, b) in units (ints: value; floats: quarters)
  Range { f: &'static str, k: &'static str, a: i64, s: i64, b: i64 },
  /// set kernel on subsets of a 6-element universe (bit masks)
  Set { f: &'static str, k: &'static str, a: u32, b: u32, refs: (bool, bool) },
  /// reduction / matrix kernels judged against integer reference arithmetic on small values
  Mat { f: &'static str, k: &'static str, l: (usize, usize), r: (usize, usize) },
}

struct Case { k: K }
impl Case {
  fn id(&self) -> String {
    match &self.k {
      K::Ew { f, k, l, r, refs, .. } => format!("ew;{};{};{}.{};r{}{}", f, k, shn(*l), shn(*r), refs.0 as u8, refs.1 as u8),
      K::Un { f, k, s, rf, .. } => format!("un;{};{};{};r{}", f, k, shn(*s), *rf as u8),
      K::Range { f, k, a, s, b } => format!("range;{};{};{}.{}.{}", f, k, a, s, b),
      K::Set { f, k, a, b, refs } => format!("set;{};{};{:06b}.{:06b};r{}{}", f, k, a, b, refs.0 as u8, refs.1 as u8),
      K::Mat { f, k, l, r } => format!("mat;{};{};{}x{}.{}x{}", f, k, l.0, l.1, r.0, r.1),
    }
  }
  fn cell(&self) -> String {
    match &self.k {
      K::Ew { f, k, l, r, .. } => format!("stage=miri;fam=ew;fn={};kind={};l={};r={}", f, k, shn(*l), shn(*r)),
      K::Un { f, k, s, .. } => format!("stage=miri;fam=un;fn={};kind={};s={}", f, k, shn(*s)),
      K::Range { f, k, .. } => format!("stage=miri;fam=range;fn={};kind={}", f, k),
      K::Set { f, k, .. } => format!("stage=miri;fam=set;fn={};kind={}", f, k),
      K::Mat { f, k, .. } => format!("stage=miri;fam=mat;fn={};kind={}", f, k),
    }
  }
}
fn mix(seed: u64, a: usize, b: usize, c: usize) -> u64 { let mut r = Rng(seed ^ (a as u64).wrapping_mul(0x9E3779B97F4A7C15) ^ (b as u64).wrapping_mul(0xBF58476D1CE4E5B9) ^ (c as u64).wrapping_mul(0x94D049BB133111EB)); r.next(); r.next() }

fn shn(s: Shape) -> String { match s { None => "s".into(), Some((r, c)) => format!("{}x{}", r, c) } }

const EW: [(&str, &str); 17] = [("math/add", "+"), ("math/sub", "-"), ("math/mul", "*"), ("math/div", "/"), ("math/mod", "%"), ("math/pow", "^"), ("compare/eq", "=="), ("compare/neq", "!="), ("compare/lt", "<"), ("compare/lte", "<="), ("compare/gt", ">"), ("compare/gte", ">="), ("logic/and", "&&"), ("logic/or", "||"), ("logic/xor", "⊻"), ("compare/max", ""), ("compare/min", "")];

fn ew_kinds(op: &str, f: &str, thorough: bool) -> Vec<&'static str> {
  if f.starts_with("logic/") { return vec!["bool"]; }
  let mut v = vec!["f64", "u8", "i64"];
  if thorough { v.extend(["u16", "u32", "u64", "u128", "i8", "i16", "i32", "i128", "f32"]); }
  if matches!(op, "+" | "-" | "*" | "/" | "==" | "!=") { v.push("r64"); v.push("c64"); }
  if matches!(op, "==" | "!=") { v.push("bool"); v.push("string"); }
  v
}

fn ew_shapes(thorough: bool) -> Vec<(Shape, Shape)> {
  let m = |r, c| Some((r, c));
  let mut v = vec![(None, None), (m(2, 2), m(2, 2)), (m(2, 3), m(2, 3)), (m(1, 3), m(1, 3)), (m(3, 1), m(3, 1)), (m(5, 2), m(5, 2)), (m(2, 3), None), (None, m(2, 3)), (m(1, 4), None), (None, m(4, 1)), (m(2, 3), m(1, 3)), (m(2, 3), m(2, 1)), (m(1, 3), m(2, 3)), (m(2, 1), m(2, 3)), (m(2, 3), m(3, 2)), (m(2, 2), m(3, 3))];
  if thorough { v.extend([(m(1, 1), m(1, 1)), (m(3, 3), m(3, 3)), (m(4, 4), m(4, 4)), (m(3, 2), m(3, 2)), (m(1, 5), m(1, 5)), (m(6, 1), m(6, 1)), (m(3, 5), m(3, 5)), (m(4, 4), None), (None, m(3, 3)), (m(5, 2), None), (None, m(1, 2)), (m(3, 3), m(1, 3)), (m(3, 3), m(3, 1)), (m(1, 3), m(3, 3)), (m(3, 1), m(3, 3)), (m(5, 2), m(1, 2)), (m(5, 2), m(5, 1)), (m(1, 4), m(4, 1)), (m(2, 2), m(1, 1))]); }
  v
}

fn gen(prop: &str, thorough: bool, seed: u64) -> Vec<Case> {
  let mut out = Vec::new();
  let all = prop == "all";
  if all || prop == "C01" || prop == "C19" {
    let shapes = ew_shapes(thorough);
    for (fi, (f, op)) in EW.iter().enumerate() {
      for (ki, k) in ew_kinds(op, f, thorough).into_iter().enumerate() {
        for (si, (l, r)) in shapes.iter().cloned().enumerate() {
          let h = mix(seed, fi, ki, si);
          let refs = (h & 1 != 0, h & 2 != 0);
          // quick: thin out the non-f64 kinds
          if !thorough && k != "f64" && k != "bool" && (h >> 8) % 3 != 0 { continue; }
          out.push(Case { k: K::Ew { f, op, k, l, r, refs } });
          if thorough { let refs2 = (!refs.0, !refs.1); out.push(Case { k: K::Ew { f, op, k, l, r, refs: refs2 } }); }
        }
      }
    }
    for (f, op, kinds) in [("math/neg", "neg", vec!["f64", "i64", "i8", "f32", "r64", "c64"]), ("logic/not", "not", vec!["bool"]), ("matrix/transpose", "", vec!["f64", "u8", "i64", "bool", "string"])] {
      for k in kinds {
        for s in [None, Some((1, 3)), Some((3, 1)), Some((2, 2)), Some((2, 3)), Some((4, 4)), Some((5, 2)), Some((1, 1))] {
          if f == "matrix/transpose" && s.is_none() { continue; }
          for rf in [false, true] {
            out.push(Case { k: K::Un { f, op, k, s, rf } });
          }
        }
      }
    }
  }
  if all || prop == "C15" || prop == "C19" {
    let kinds: Vec<&'static str> = if thorough { vec!["u8", "u16", "u32", "u64", "u128", "i8", "i16", "i32", "i64", "i128", "f32", "f64"] } else { vec!["u8", "i64", "f64", "i8", "u64", "f32"] };
    for k in kinds {
      let signed = !k.starts_with('u');
      for f in ["range/inclusive", "range/exclusive", "range/inclusive-increment", "range/exclusive-increment"] {
        let stepped = f.ends_with("increment");
        let mut scen: Vec<(i64, i64, i64)> = vec![(1, 1, 4), (2, 1, 2), (0, 1, 1), (3, 1, 9), (1, 1, 7)];
        if stepped { scen = vec![(1, 2, 9), (1, 2, 8), (0, 3, 10), (2, 5, 3), (1, 1, 5), (4, 4, 16)]; if signed { scen.extend([(-3, 2, 4), (-9, 3, -2)]); } } // descending ranges are a recorded defect of the tree (KF-C15-02), judged by C15's own check
        else if signed { scen.extend([(-3, 1, 2), (-5, 1, -1)]); }
        if thorough { let mut rng = Rng(mix(seed, k.len() * 7 + k.as_bytes()[1] as usize, f.len(), 77)); for _ in 0..6 { let a = rng.range(if signed { -6 } else { 0 }, 6); let s = if stepped { rng.range(1, 4) } else { 1 }; let b = a + rng.range(0, 12); scen.push((a, s, b)); } }
        for (a, s, b) in scen {
          out.push(Case { k: K::Range { f, k, a, s, b } });
        }
      }
    }
  }
  if all || prop == "C14" || prop == "C19" {
    let fns = ["set/union", "set/intersection", "set/difference", "set/symmetric-difference", "set/subset", "set/superset", "set/proper_subset", "set/proper-superset", "set/equals", "set/not_equals", "set/disjoint", "set/element-of", "set/not-element-of", "set/insert", "set/remove", "set/size", "set/cartesian-product", "set/powerset"];
    let kinds: Vec<&'static str> = if thorough { vec!["i64", "u8", "f64", "string", "bool", "r64"] } else { vec!["i64", "string", "f64"] };
    for f in fns {
      for k in kinds.iter() {
        let mut rng = Rng(mix(seed, f.len() * 31 + f.as_bytes()[5] as usize, k.len() + k.as_bytes()[0] as usize, 99));
        let n = if thorough { 10 } else { 4 };
        let mut pairs: Vec<(u32, u32)> = vec![(0b000111, 0b011100), (0, 0b000011), (0b000101, 0b000101), (0b001111, 0b000110)];
        for _ in 0..n { pairs.push((rng.below(64) as u32, rng.below(64) as u32)); }
        if *k == "bool" { for p in pairs.iter_mut() { p.0 &= 3; p.1 &= 3; } }
        for (i, (a, b)) in pairs.into_iter().enumerate() {
          let refs = (i % 2 == 1, i % 3 == 1);
          out.push(Case { k: K::Set { f, k, a, b, refs } });
        }
      }
    }
  }
  if all || prop == "C19" || prop == "C01" {
    for k in ["f64", "i64", "u8", "f32"] {
      for (f, l, r) in [("stats/sum/row", (2, 3), (0, 0)), ("stats/sum/row", (3, 1), (0, 0)), ("stats/sum/row", (1, 4), (0, 0)), ("stats/sum/row", (5, 2), (0, 0)), ("stats/sum/column", (2, 3), (0, 0)), ("stats/sum/column", (3, 1), (0, 0)), ("stats/sum/column", (1, 4), (0, 0)), ("stats/sum/column", (5, 2), (0, 0)),
                        ("matrix/matmul", (2, 3), (3, 2)), ("matrix/matmul", (1, 3), (3, 1)), ("matrix/matmul", (3, 1), (1, 3)), ("matrix/matmul", (2, 2), (2, 2)), ("matrix/matmul", (4, 4), (4, 1)), ("matrix/matmul", (5, 2), (2, 5)), ("matrix/matmul", (2, 3), (2, 3)),
                        ("matrix/dot", (1, 3), (1, 3)), ("matrix/dot", (3, 1), (3, 1)), ("matrix/dot", (2, 2), (2, 2)),
                        ("matrix/solve", (2, 2), (2, 1)), ("matrix/solve", (3, 3), (3, 1)), ("matrix/solve", (2, 2), (2, 2))] {
        if f == "matrix/solve" && !k.starts_with('f') { continue; }
        out.push(Case { k: K::Mat { f, k, l, r } });
      }
    }
  }
  out
}

fn compiler(name: &str) -> Option<&'static dyn NativeFunctionCompiler> {
  for d in inventory::iter::<FunctionCompilerDescriptor> { if d.name == name { return Some(d.ptr); } }
  None
}

fn mkval(k: &str, sh: Shape, key: &str, seed: u64, pool: bool) -> CVal {
  let mut rng = Rng::keyed(seed, key);
  let one = |rng: &mut Rng, i: usize| -> CVal {
    // pool: few distinct values (ties for comparisons); otherwise pairwise distinct small values
    let s = if pool { small_val(k, rng.range(1, 3)) } else if k == "bool" { Sc::B(rng.chance(1, 2)) } else { small_val(k, (i as i64) * 2 + rng.range(1, 2) + 1) };
    CVal::S(k.to_string(), s)
  };
  match sh { None => one(&mut rng, 0), Some((r, c)) => CVal::M(k.to_string(), r, c, (0..r * c).map(|i| one(&mut rng, i)).collect()) }
}

fn wrap(v: Value, rf: bool) -> Value { if rf { Value::MutableReference(Ref::new(v)) } else { v } }

fn guarded<T>(f: impl FnOnce() -> T) -> Result<T, String> {
  match std::panic::catch_unwind(std::panic::AssertUnwindSafe(f)) { Ok(v) => Ok(v), Err(e) => Err(if let Some(s) = e.downcast_ref::<&str>() { s.to_string() } else if let Some(s) = e.downcast_ref::<String>() { s.clone() } else { "panic".into() }) }
}

/// compile + solve + out, then solve again + out. Err(text) when the kernel rejects the operands (error or panic).
fn call(name: &str, args: &Vec<Value>) -> Result<(CVal, CVal), String> {
  let c = compiler(name).ok_or_else(|| format!("no compiler {}", name))?;
  let r = guarded(|| -> Result<(CVal, CVal), String> {
    let f = c.compile(args).map_err(|e| format!("{:?}", e).chars().take(160).collect::<String>())?;
    f.solve();
    let o1 = canon(&f.out());
    f.solve();
    let o2 = canon(&f.out());
    Ok((o1, o2))
  });
  match r { Ok(x) => x, Err(p) => Err(format!("panic: {}", p)) }
}

struct Out { verdict: &'static str, class: String, detail: String, tags: Vec<String>, nontrivial: bool }
fn held(tags: Vec<String>) -> Out { Out { verdict: "held", class: String::new(), detail: String::new(), tags, nontrivial: true } }
fn trivial(tag: &str, detail: String) -> Out { Out { verdict: "held", class: String::new(), detail, tags: vec![tag.to_string()], nontrivial: false } }
fn viol(class: &str, detail: String) -> Out { Out { verdict: "violated", class: class.to_string(), detail, tags: vec![], nontrivial: true } }

fn at(v: &CVal, i: usize, j: usize) -> CVal {
  match v { CVal::M(_, r, c, e) => { let ii = if *r == 1 { 0 } else { i }; let jj = if *c == 1 { 0 } else { j }; e[jj * r + ii].clone() } s => s.clone() }
}

fn bshape(l: Shape, r: Shape) -> Option<Shape> {
  match (l, r) {
    (None, None) => Some(None),
    (Some(a), None) | (None, Some(a)) => Some(Some(a)),
    (Some(a), Some(b)) if a == b => Some(Some(a)),
    (Some((r1, c1)), Some((r2, c2))) => {
      if r2 == 1 && c2 == c1 && r1 > 1 { Some(Some((r1, c1))) } else if c2 == 1 && r2 == r1 && c1 > 1 { Some(Some((r1, c1))) }
      else if r1 == 1 && c1 == c2 && r2 > 1 { Some(Some((r2, c2))) } else if c1 == 1 && r1 == r2 && c2 > 1 { Some(Some((r2, c2))) }
      else { None }
    }
  }
}

fn run_ew(f: &str, op: &str, k: &str, l: Shape, r: Shape, refs: (bool, bool), seed: u64) -> Out {
  let pool = is_cmp(op) || f.starts_with("compare/m") || op == "^";
  let a = mkval(k, l, &format!("a{}{}{}", f, k, shn(l)), seed, pool);
  let b = mkval(k, r, &format!("b{}{}{}", f, k, shn(r)), seed, pool);
  let (va, vb) = (wrap(to_value(&a), refs.0), wrap(to_value(&b), refs.1));
  let res = call(f, &vec![va.clone(), vb.clone()]);
  // operands must be untouched whatever happened
  if canon(&va) != a || canon(&vb) != b { return viol("operand-changed", format!("{} on {} , {}: operands afterwards {} , {}", f, a.show(), b.show(), canon(&va).show(), canon(&vb).show())); }
  let expect_shape = bshape(l, r);
  let (o1, o2) = match res {
    Err(e) => {
      // rejection of compatible shapes is judged by C01's interpreter-level check (which knows what the scalar form supports); here it is an observation
      return trivial(if expect_shape.is_none() { "kernel:rejected-incompatible" } else { "kernel:rejected" }, e);
    }
    Ok(x) => x,
  };
  if o1 != o2 { return viol("resolve-differs", format!("{} on {} , {}: first solve {} second solve {}", f, a.show(), b.show(), o1.show(), o2.show())); }
  let es = match expect_shape { None => return viol("value-instead-of-error", format!("{} accepted shapes {} and {}: {}", f, shn(l), shn(r), o1.show())), Some(s) => s };
  let (rr, cc) = es.unwrap_or((1, 1));
  if es.is_some() { if o1.shape() != (rr, cc) || !o1.is_matrix() { return viol("wrong-shape", format!("{} on {} , {}: result {}", f, a.show(), b.show(), o1.show())); } }
  else if o1.is_matrix() { return viol("wrong-shape", format!("{} on scalars gave {}", f, o1.show())); }
  let mut nchecked = 0;
  for j in 0..cc { for i in 0..rr {
    let (x, y) = (at(&a, i, j), at(&b, i, j));
    let got = at(&o1, i, j);
    if es.is_some() {
      // scalar twin in the same build
      if let Ok((t, _)) = call(f, &vec![to_value(&x), to_value(&y)]) { if t != got { return viol("wrong-element", format!("{} on {} , {}: element ({},{}) is {} but the scalar kernel gives {}", f, a.show(), b.show(), i + 1, j + 1, got.show(), t.show())); } nchecked += 1; }
    }
    if !op.is_empty() {
      if let (CVal::S(_, sx), CVal::S(_, sy)) = (&x, &y) {
        let e = ref_binop(op, k, sx, sy);
        if !e.admits(&got) { return viol("wrong-element", format!("{} on {} , {}: element ({},{}) is {} but {} {} {} = {}", f, a.show(), b.show(), i + 1, j + 1, got.show(), x.show(), op, y.show(), e.show())); }
        if !matches!(e, Exp::Free) { nchecked += 1; }
      }
    }
  } }
  if nchecked == 0 { return trivial("kernel:unconstrained", String::new()); }
  held(vec![format!("kernel:{}", f)])
}

fn run_un(f: &str, op: &str, k: &str, s: Shape, rf: bool, seed: u64) -> Out {
  let a = mkval(k, s, &format!("u{}{}{}", f, k, shn(s)), seed, false);
  let va = wrap(to_value(&a), rf);
  let res = call(f, &vec![va.clone()]);
  if canon(&va) != a { return viol("operand-changed", format!("{} on {}: operand afterwards {}", f, a.show(), canon(&va).show())); }
  let (o1, o2) = match res { Err(e) => return trivial("kernel:rejected", e), Ok(x) => x };
  if o1 != o2 { return viol("resolve-differs", format!("{} on {}: first solve {} second solve {}", f, a.show(), o1.show(), o2.show())); }
  let (r, c) = a.shape();
  if f == "matrix/transpose" {
    if o1.shape() != (c, r) { return viol("wrong-shape", format!("{} on {}: {}", f, a.show(), o1.show())); }
    for i in 0..r { for j in 0..c { if at(&a, i, j) != at(&o1, j, i) { return viol("wrong-element", format!("{} on {}: {}", f, a.show(), o1.show())); } } }
    return held(vec![format!("kernel:{}", f)]);
  }
  if o1.shape() != (r, c) || o1.is_matrix() != a.is_matrix() { return viol("wrong-shape", format!("{} on {}: {}", f, a.show(), o1.show())); }
  for j in 0..c { for i in 0..r {
    if let CVal::S(_, sx) = at(&a, i, j) { let e = ref_unop(op, k, &sx); let got = at(&o1, i, j); if !e.admits(&got) { return viol("wrong-element", format!("{} on {}: element ({},{}) is {} expected {}", f, a.show(), i + 1, j + 1, got.show(), e.show())); } }
  } }
  held(vec![format!("kernel:{}", f)])
}

fn unit(k: &str, n: i64) -> CVal {
  match k { "f64" => sc_f64(n as f64 / 4.0), "f32" => sc_f32(n as f32 / 4.0), _ if k.starts_with('u') => sc_u(k, n as u128), _ => sc_i(k, n as i128) }
}

fn run_range(f: &str, k: &str, a: i64, s: i64, b: i64) -> Out {
  let stepped = f.ends_with("increment");
  let incl = f.starts_with("range/inclusive");
  let fl = k.starts_with('f');
  // floats are counted in quarters so that every term is exact
  let (ua, us, ub) = if fl { (a * 4, s * 4, b * 4) } else { (a, s, b) };
  let args = if stepped { vec![to_value(&unit(k, ua)), to_value(&unit(k, us)), to_value(&unit(k, ub))] } else { vec![to_value(&unit(k, ua)), to_value(&unit(k, ub))] };
  let res = call(f, &args);
  let mut terms = Vec::new();
  let buildable = s != 0 && ((s > 0 && a <= b) || (s < 0 && a >= b));
  if buildable { let mut x = a; loop { if s > 0 { if x > b || (!incl && x == b) { break; } } else { if x < b || (!incl && x == b) { break; } } terms.push(x); x += s; if terms.len() > 1000 { break; } } }
  match res {
    Err(e) => { if buildable && !terms.is_empty() { viol("error-instead-of-value", format!("{} {}..{}..{} <{}>: {}", f, a, s, b, k, e)) } else { held(vec!["range:rejected".into()]) } }
    Ok((o1, o2)) => {
      if o1 != o2 { return viol("resolve-differs", format!("{} {}..{}..{} <{}>: first {} second {}", f, a, s, b, k, o1.show(), o2.show())); }
      let got: Vec<CVal> = o1.elems();
      let want: Vec<CVal> = terms.iter().map(|t| unit(k, if fl { t * 4 } else { *t })).collect();
      let empty_ok = want.is_empty() && (got.is_empty() || !o1.is_matrix());
      if !o1.is_matrix() && !want.is_empty() { return viol("not-a-vector", format!("{} {}..{}..{} <{}>: {}", f, a, s, b, k, o1.show())); }
      if got != want && !empty_ok { return viol(if got.len() > want.len() { "extra-element" } else if got.len() < want.len() { "missing-element" } else { "wrong-element" }, format!("{} {}..{}..{} <{}>: got {} expected {} terms", f, a, s, b, k, o1.show(), want.len())); }
      if o1.is_matrix() && o1.elem_kind() != k && !got.is_empty() { return viol("wrong-kind", format!("{} <{}>: {}", f, k, o1.show())); }
      held(vec![format!("kernel:{}", f)])
    }
  }
}

fn uni(k: &str, i: usize) -> CVal {
  match k { "i64" => sc_i(k, [-3, 0, 1, 2, 7, 40][i]), "u8" => sc_u(k, [0, 1, 2, 3, 200, 255][i]), "f64" => sc_f64([0.5, -1.25, 2.0, 3.75, 100.0, -7.5][i]), "string" => sc_s(["", "a", "ab", "é✓", "a b", "Z"][i]), "bool" => sc_b(i % 2 == 1), "r64" => sc_r([1, -1, 1, 3, 7, 5][i], [2, 2, 3, 4, 1, 9][i]), _ => panic!() }
}
fn mkset(k: &str, mask: u32, rot: usize) -> Value {
  let n = if k == "bool" { 2 } else { 6 };
  let mut v = Vec::new();
  for j in 0..n { let i = (j + rot) % n; if mask & (1 << i) != 0 { v.push(to_value(&uni(k, i))); } }
  Value::Set(Ref::new(MechSet::from_vec(v)))
}
fn set_ids(k: &str, c: &CVal) -> Option<BTreeSet<usize>> {
  let n = if k == "bool" { 2 } else { 6 };
  if let CVal::Set(_, _, e) = c { let mut s = BTreeSet::new(); for x in e { let i = (0..n).find(|i| uni(k, *i) == *x)?; if !s.insert(i) { return None; } } Some(s) } else { None }
}

fn run_set(f: &str, k: &str, a: u32, b: u32, refs: (bool, bool), seed: u64) -> Out {
  let n = if k == "bool" { 2 } else { 6 };
  let ids = |m: u32| -> BTreeSet<usize> { (0..n).filter(|i| m & (1 << i) != 0).collect() };
  let (sa, sb) = (ids(a), ids(b));
  let rot = (seed % 6) as usize;
  let va = wrap(mkset(k, a, rot), refs.0);
  let ca = canon(&va);
  let elem_i = (b as usize) % n;
  let elemwise = matches!(f, "set/element-of" | "set/not-element-of" | "set/insert" | "set/remove");
  let unary = matches!(f, "set/size" | "set/powerset");
  let vb = if elemwise { wrap(to_value(&uni(k, elem_i)), refs.1) } else { wrap(mkset(k, b, (rot + 2) % 6), refs.1) };
  let cb = canon(&vb);
  // membership kernels take (element, set); insert / remove take (set, element)
  let args = if unary { vec![va.clone()] } else if matches!(f, "set/element-of" | "set/not-element-of") { vec![vb.clone(), va.clone()] } else { vec![va.clone(), vb.clone()] };
  let res = call(f, &args);
  if canon(&va) != ca || canon(&vb) != cb { return viol("operand-changed", format!("{} on {} , {}: operands afterwards {} , {}", f, ca.show(), cb.show(), canon(&va).show(), canon(&vb).show())); }
  let (o1, o2) = match res { Err(e) => return trivial("kernel:rejected", e), Ok(x) => x };
  if o1 != o2 { return viol("resolve-differs", format!("{} on {} , {}: first {} second {}", f, ca.show(), cb.show(), o1.show(), o2.show())); }
  let want_set: Option<BTreeSet<usize>> = match f {
    "set/union" => Some(sa.union(&sb).cloned().collect()), "set/intersection" => Some(sa.intersection(&sb).cloned().collect()), "set/difference" => Some(sa.difference(&sb).cloned().collect()), "set/symmetric-difference" => Some(sa.symmetric_difference(&sb).cloned().collect()),
    "set/insert" => { let mut s = sa.clone(); s.insert(elem_i); Some(s) } "set/remove" => { let mut s = sa.clone(); s.remove(&elem_i); Some(s) } _ => None };
  let want_bool: Option<bool> = match f {
    "set/subset" => Some(sa.is_subset(&sb)), "set/superset" => Some(sa.is_superset(&sb)), "set/proper_subset" => Some(sa.is_subset(&sb) && sa != sb), "set/proper-superset" => Some(sa.is_superset(&sb) && sa != sb),
    "set/equals" => Some(sa == sb), "set/not_equals" => Some(sa != sb), "set/disjoint" => Some(sa.is_disjoint(&sb)), "set/element-of" => Some(sa.contains(&elem_i)), "set/not-element-of" => Some(!sa.contains(&elem_i)), _ => None };
  let d = || format!("{} on {} , {}: {}", f, ca.show(), cb.show(), o1.show());
  if let Some(w) = want_set {
    if let CVal::Set(_, cnt, e) = &o1 { if *cnt != e.len() { return viol("size-mismatch", d()); } }
    // C14 lists union / intersection / difference / symmetric difference; what insert and remove return is outside its text (observation only), their results must still be sets of distinct elements
    match set_ids(k, &o1) { Some(g) if g == w => {} Some(_) if matches!(f, "set/insert" | "set/remove") => return trivial("kernel:insert-remove-differs", d()), Some(_) => return viol("set-algebra-wrong", d()), None => return viol("not-a-set-of-distinct-elements", d()) }
  } else if let Some(w) = want_bool {
    if o1 != sc_b(w) { return viol(if f.contains("element") { "membership-wrong" } else { "relation-wrong" }, d()); }
  } else if f == "set/size" {
    let ok = match &o1 { CVal::S(_, Sc::U(x)) => *x as usize == sa.len(), CVal::S(_, Sc::I(x)) => *x as usize == sa.len(), CVal::S(_, Sc::F64(x)) => f64::from_bits(*x) == sa.len() as f64, CVal::Index(x) => *x == sa.len(), _ => false };
    if !ok { return viol("size-mismatch", d()); }
  } else if f == "set/powerset" {
    if let CVal::Set(_, cnt, e) = &o1 { if e.len() != 1 << sa.len() || *cnt != e.len() { return viol("set-algebra-wrong", d()); } let mut seen = BTreeSet::new(); for x in e { match set_ids(k, x) { Some(g) if g.is_subset(&sa) && seen.insert(g.clone()) => {} _ => return viol("set-algebra-wrong", d()) } } } else { return viol("not-a-set-of-distinct-elements", d()); }
  } else if f == "set/cartesian-product" {
    if let CVal::Set(_, cnt, e) = &o1 { if e.len() != sa.len() * sb.len() || *cnt != e.len() { return viol("set-algebra-wrong", d()); } let mut seen = BTreeSet::new();
      for x in e { if let CVal::Tuple(t) = x { if t.len() != 2 { return viol("set-algebra-wrong", d()); } let i = (0..n).find(|i| uni(k, *i) == t[0]); let j = (0..n).find(|j| uni(k, *j) == t[1]); match (i, j) { (Some(i), Some(j)) if sa.contains(&i) && sb.contains(&j) && seen.insert((i, j)) => {} _ => return viol("set-algebra-wrong", d()) } } else { return viol("set-algebra-wrong", d()); } } } else { return viol("not-a-set-of-distinct-elements", d()); }
  }
  held(vec![format!("kernel:{}", f)])
}

fn run_mat(f: &str, k: &str, l: (usize, usize), r: (usize, usize), seed: u64) -> Out {
  let small = |key: &str, (rr, cc): (usize, usize)| -> (CVal, Vec<i64>) { let mut rng = Rng::keyed(seed, key); let v: Vec<i64> = (0..rr * cc).map(|_| rng.range(0, 4)).collect(); (CVal::M(k.to_string(), rr, cc, v.iter().map(|x| unit(k, if k.starts_with('f') { x * 4 } else { *x })).collect()), v) };
  let (a, av) = small(&format!("ma{}{}", f, k), l);
  let va = to_value(&a);
  let binary = r != (0, 0);
  let (b, bv) = if binary { small(&format!("mb{}{}", f, k), r) } else { (CVal::Empty, vec![]) };
  let mut args = vec![va.clone()];
  let vb = if binary { let v = to_value(&b); args.push(v.clone()); Some(v) } else { None };
  if f == "matrix/solve" {
    // make the system well conditioned: a += 10 I
    if let CVal::M(_, n, _, _) = &a { let mut e = a.elems(); for i in 0..*n { e[i * n + i] = unit(k, (av[i * n + i] + 10) * 4); } let a2 = CVal::M(k.to_string(), *n, *n, e); args[0] = to_value(&a2); let va2 = args[0].clone(); let res = call(f, &args); if canon(&va2) != a2 || canon(vb.as_ref().unwrap()) != b { return viol("operand-changed", format!("{}: operands changed", f)); } return match res { Err(e) => trivial("kernel:rejected", e), Ok((o1, o2)) => if o1 != o2 { viol("resolve-differs", format!("{} on {} , {}: first {} second {}", f, a2.show(), b.show(), o1.show(), o2.show())) } else { held(vec![format!("kernel:{}", f)]) } }; }
  }
  let res = call(f, &args);
  if canon(&va) != a || vb.as_ref().map(|v| canon(v) != b).unwrap_or(false) { return viol("operand-changed", format!("{} on {}: operands changed", f, a.show())); }
  let compatible = match f { "matrix/matmul" => l.1 == r.0, "matrix/dot" => l == r && (l.0 == 1 || l.1 == 1), _ => true };
  let (o1, o2) = match res { Err(e) => return trivial(if compatible { "kernel:rejected" } else { "kernel:rejected-incompatible" }, e), Ok(x) => x };
  if o1 != o2 { return viol("resolve-differs", format!("{} on {}: first {} second {}", f, a.show(), o1.show(), o2.show())); }
  let val = |x: i64| unit(k, if k.starts_with('f') { x * 4 } else { x });
  let want: Option<(usize, usize, Vec<i64>)> = match f {
    // nalgebra's naming: row_sum() is the ROW VECTOR of column totals, column_sum() the COLUMN VECTOR of row totals
    "stats/sum/column" => Some((l.0, 1, (0..l.0).map(|i| (0..l.1).map(|j| av[j * l.0 + i]).sum()).collect())),
    "stats/sum/row" => Some((1, l.1, (0..l.1).map(|j| (0..l.0).map(|i| av[j * l.0 + i]).sum()).collect())),
    "matrix/matmul" if compatible => { let mut v = Vec::new(); for j in 0..r.1 { for i in 0..l.0 { v.push((0..l.1).map(|t| av[t * l.0 + i] * bv[j * r.0 + t]).sum()); } } Some((l.0, r.1, v)) }
    "matrix/dot" if compatible => Some((1, 1, vec![av.iter().zip(bv.iter()).map(|(x, y)| x * y).sum()])),
    _ => None };
  match want {
    Some((rr, cc, v)) => {
      let got = o1.elems();
      let wantv: Vec<CVal> = v.iter().map(|x| val(*x)).collect();
      // a reduction may return its single element as a scalar or as a 1x1 matrix; orientation of a sum is part of the documented result (row sums: column; column sums: row)
      if got != wantv { return viol("wrong-element", format!("{} on {}{}: got {} expected {:?}", f, a.show(), if binary { format!(" , {}", b.show()) } else { String::new() }, o1.show(), v)); }
      if o1.is_matrix() && rr * cc > 1 && o1.shape() != (rr, cc) && f == "matrix/matmul" { return viol("wrong-shape", format!("{}: got {} expected {}x{}", f, o1.show(), rr, cc)); }
      held(vec![format!("kernel:{}", f)])
    }
    None => if compatible { held(vec![format!("kernel:{}", f)]) } else { trivial("kernel:accepted-incompatible", o1.show()) },
  }
}

fn run_case(c: &Case, seed: u64) -> Out {
  match &c.k {
    K::Ew { f, op, k, l, r, refs } => run_ew(f, op, k, *l, *r, *refs, seed),
    K::Un { f, op, k, s, rf } => run_un(f, op, k, *s, *rf, seed),
    K::Range { f, k, a, s, b } => run_range(f, k, *a, *s, *b),
    K::Set { f, k, a, b, refs } => run_set(f, k, *a, *b, *refs, seed),
    K::Mat { f, k, l, r } => run_mat(f, k, *l, *r, seed),
  }
}

fn main() {
  let a: Vec<String> = std::env::args().collect();
  if a.len() == 2 && a[1] == "noop" { println!("noop"); return; }
  if a.len() < 6 { eprintln!("usage: mk <prop|all> <quick|thorough> <seed> <shard> <nshards> [start] [stride]   (nshards 0: count)\n       mk one <prop> <quick|thorough> <seed> <case id>"); std::process::exit(2); }
  std::panic::set_hook(Box::new(|_| {}));
  if a[1] == "one" {
    let (prop, thorough, seed) = (a[2].as_str(), a[3] == "thorough", a[4].parse::<u64>().unwrap());
    for (i, c) in gen(prop, thorough, seed).iter().enumerate() {
      if c.id() != a[5] { continue; }
      println!("B {} {}", i, c.id());
      let o = run_case(c, seed);
      println!("E {} {}", i, json!({"id": c.id(), "cell": c.cell(), "verdict": o.verdict, "class": o.class, "detail": o.detail, "tags": o.tags, "nontrivial": o.nontrivial}));
      println!("DONE 1");
      return;
    }
    println!("DONE 0");
    return;
  }
  let (prop, thorough, seed, shard, nsh) = (a[1].as_str(), a[2] == "thorough", a[3].parse::<u64>().unwrap(), a[4].parse::<usize>().unwrap(), a[5].parse::<usize>().unwrap());
  let start = a.get(6).and_then(|s| s.parse::<usize>().ok()).unwrap_or(0);
  let stride = a.get(7).and_then(|s| s.parse::<usize>().ok()).unwrap_or(1).max(1);
  let cases = gen(prop, thorough, seed);
  // a stride keeps every stride-th case (offset by the seed), re-indexed, so that shards stay balanced
  let sel: Vec<&Case> = cases.iter().enumerate().filter(|(i, _)| i % stride == (seed as usize) % stride).map(|(_, c)| c).collect();
  if nsh == 0 { println!("COUNT {}", sel.len()); return; }
  let mut n = 0;
  for (i, c) in sel.iter().enumerate() {
    if i % nsh != shard || i < start { continue; }
    println!("B {} {}", i, c.id());
    let o = run_case(c, seed);
    println!("E {} {}", i, json!({"id": c.id(), "cell": c.cell(), "verdict": o.verdict, "class": o.class, "detail": o.detail, "tags": o.tags, "nontrivial": o.nontrivial}));
    n += 1;
  }
  println!("DONE {}", n);
}
