#!/usr/bin/env python3
"""Regenerates /verif/MANIFEST.json from the table below (single source of truth for claims)."""
import json, subprocess
props=[json.loads(l) for l in open('/verif/properties.jsonl')]
ids=[p['id'] for p in props]

CLAIMS = {
 "C01": dict(
   technique="runtime monitoring: differential twin (matrix form vs scalar form in the same build) + independent reference arithmetic over a systematic operator x kind x shape-pair sweep; dispatch-arm coverage monitor; Miri stage: the kernels these constructs dispatch to are driven directly (crate /verif/miri) under the undefined-behaviour interpreter with the same value oracles",
   text="Every swept cell (17 operators x 16 kinds x up to 110 shape pairs, 1-3 value draws) is executed through Interpreter::interpret on API-bound operands and judged elementwise against scalar evaluations and exact/IEEE reference arithmetic; incompatible shapes must be errors. Held on the executions produced, nothing is claimed for unvisited shapes or values. Each operand is written as an API-bound variable or as an inline literal (all four combinations; comparison operands come from a small pool so ties are frequent). A source-form stratum writes the same operands through mutable variables, parentheses, copies, record fields, tuple elements, slices of a wider matrix, full subscripts and literals assembled from scalar variables, writes the same variable on both sides (a op a, NaN included), and evaluates the formula inside match arms, with pattern-bound operands, inside function arms and comprehension heads; the oracle there is the evaluation with plain variables.",
   note="Trusts: the harness' reference arithmetic (i128/u128 checked, Rust f64/f32 primitives), canonicalisation through Matrix::as_vec/shape, and that binding operands with ProgramState::save_symbol is equivalent to defining them in source (a literal-built stratum cross-checks this).",
   ref="6/C01"),
 "C03": dict(
   technique="runtime monitoring: 1-based column-major reference selection model over a systematic kind x shape x index-form x boundary-variant sweep; before/after symbol snapshots (read purity); ASan flavour in thorough",
   text="Every cell (16 kinds x 11 shapes x 31 index forms x in-range and each boundary out-of-range variant) is interpreted on a matrix whose elements encode their own linear index and compared with the reference selection (elements, order, count, documented 2-D shape); out-of-range and wrong-length masks must be errors; the symbol table must be unchanged by the read. Index expressions are written inline or bound to variables first; one mask in six selects nothing. The indexed matrix is also reached through other source forms (mutable variable, copy, record field, tuple element, literal definition, chained full subscript), and subscripts that are local names (bound by a comprehension generator, a match arm or a function arm, with globals of the same names holding other valid positions) must select what the literal positions select.",
   note="Trusts the harness reference selector and canonicalisation; 'supported' forms are learned from the in-range read of the same cell (forms listed in docs/reference/indexing.mec must be supported on general matrices).",
   ref="6/C03"),
 "C04": dict(
   technique="runtime monitoring: reference store (model matrix + C01 reference arithmetic) compared with full-variable snapshots after every assignment statement; frame and failure-atomicity monitors; histories of 3-8 assignments; ASan flavour in thorough",
   text="Every cell (kind x shape x index form x operator {=,+=,-=,*=,/=} x source {scalar, vector, wrong kind} x in-range / out-of-range variant) runs one statement in a session holding the target, a bystander and then compares every element, the shape, the kind, the bystander and the read-back with the model; failing statements must leave all symbols unchanged. Index expressions of the target are written inline or bound to variables first; all-false masks included. Scalar sources also draw exactly zero and a value an addressed element already holds.",
   note="Trusts the harness model; sources are written as typed literals (N<kind>); a statement form that fails on in-range input is treated as unsupported and only its atomicity is judged.",
   ref="6/C04"),
 "C05": dict(
   technique="runtime monitoring: copy-semantics reference store compared with deep snapshots of Interpreter::symbols() after every statement of a session (alias matrix, invalid-statement classes, random sessions)",
   text="Sessions are interpreted one statement at a time; after each statement every name other than the statement's target must be bitwise unchanged, the set of names must match, the stated invalid classes must be errors, and any error must leave the whole store unchanged. The alias matrix enumerates every way y can be bound from x against every mutation of x for 8 value kinds. Further strata: definitions whose value cannot be converted to the annotated kind, functions that assign to a parameter, the op-assignment kernels called by name, assignments through ans, and every registered native function and unary / postfix operator applied to variables (the operand and every other binding must keep their values, then the operand is mutated and the result must keep its value).",
   note="For the target of a successful statement the model adopts the implementation's value. Random sessions are composed only from constructs that are isolation-clean on their own (aliasing define forms are exercised in the alias matrix, where each failing cell is an exactly listed known finding).",
   ref="6/C05"),
 "C13": dict(
   technique="runtime monitoring: differential oracle (Rust's correctly rounded str::parse, exact u128/i128 parsing, gcd reduction) over literal spellings generated from the specification grammar, cell sweep form x kind x magnitude x style",
   text="Every literal is interpreted alone and its canonical value (kind and bits) is compared with the number the spelling denotes; out-of-range typed literals may only clamp to the kind bound or fail, a zero denominator must fail, and a valid in-range spelling must not be an error. Held on the spellings generated; digits are random inside each cell. Also: signed and float kind suffixes, optional-kind annotations, and based literals with a character that is not a digit of the base (must not evaluate).",
   note="Trusts Rust's float parser as the nearest-value oracle and the harness generator's reading of specification section 4.2 (underscores only inside float digit sequences; signed kinds via annotation).",
   ref="6/C13"),
 "C15": dict(
   technique="runtime monitoring: exact rational progression model compared term by term with interpreted ranges over a kind x form x scenario sweep with random magnitudes; chk and rel flavours; Miri stage: the kernels these constructs dispatch to are driven directly (crate /verif/miri) under the undefined-behaviour interpreter with the same value oracles",
   text="For each cell the API-bound operands a, s, b of one kind are interpreted through a..b, a..=b, a..s..b, a..s..=b; the result must be exactly the progression (count, every term, kind), unbuildable ranges must be an error or empty, and x[a..=b] must select what the range value lists. Start, step and end are each a variable, an inline literal or a name bound by an enclosing comprehension generator (with decoy globals); spans wider than the kind maximum and the full span of the 8-bit kinds are included.",
   note="Trusts the harness' exact rational arithmetic; inexact decimal float steps are judged within 1 ulp and without a count; orientation of the result vector is not judged.",
   ref="6/C15"),
 "C02": dict(
   technique="runtime monitoring: independent 5-level left-associative reference parser; each formula is compared with its fully parenthesised rendering and with a node-by-node evaluation of the reference tree (one interpreter call per binary node)",
   text="All operator sequences up to length 3, sampled/exhaustive length 4 and type-directed chains up to length 8 (with unary -, !, transpose and **) are interpreted unparenthesised, fully parenthesised by the reference grouping, and stepwise; the three results must be the same canonical value. Random explicit parenthesisations are checked against their own tree. Operands are variables or inline literals; chains over real and imaginary literal operands (3 + 4i * 1i) are included.",
   note="Trusts the harness' reading of the specification's precedence table; operand values are chosen so that a different grouping changes the value (non-commutative, negative, zero, fractional).",
   ref="6/C02"),
 "C11": dict(
   technique="runtime monitoring: reference block placement compared with interpreted literals over an exhaustive enumeration of tilings (compositions of heights x compositions of widths) x element kinds, with off-by-one and mixed-kind invalid variants; ASan flavour in thorough",
   text="Every tiling of a result up to 4x4 by 1-4 block rows of 1-4 blocks (and sampled larger ones) is built from API-bound blocks with pairwise distinct contents and interpreted as a matrix literal; the value must be exactly the block matrix with the element kind preserved, and a block one row too tall, one column too wide or of another kind must make the literal an error. Literals with 5-8 block rows / blocks per row (n-ary kernels) are included; blocks are written as variables, inline literals or slice expressions, and rows are separated by `; `, `;` + newline or a newline.",
   note="Trusts the harness placement model; quick enumerates all tilings for f64 and a seeded subset for the other kinds, thorough all tilings for all kinds.",
   ref="6/C11"),
 "C12": dict(
   technique="runtime monitoring: exact representability oracle (big-integer / dyadic / rational), trunc-and-clamp rule, scalar-vs-matrix differential twin, column-major reshape model and distinct-element model over a kind-pair x value-group sweep",
   text="For every ordered pair of numeric kinds, boundary and random values that the target can represent must convert to exactly that number, floats must truncate toward zero and clamp into integer kinds, matrix conversion must equal the scalar rule elementwise and keep the shape; all reshapes up to 16 elements must be column-major (unequal counts fail); string->number fails; matrix->set keeps the distinct elements. Also: option annotations (<k?>), matrix -> set of another kind against the scalar conversions of the elements, and reshapes through the wildcard element kind <[*]:r,c>.",
   note="Pairs for which every value is rejected are treated as 'no conversion' (allowed by the property). Unconstrained cases (narrowing integers, inexact floats) are only judged through the matrix-vs-scalar twin.",
   ref="6/C12"),
 "C14": dict(
   technique="runtime monitoring: mathematical-set reference model over small universes with several spellings per element; structural invariant monitor (distinct elements, single kind, size = cardinality) applied to every set value observed; Miri stage: the kernels these constructs dispatch to are driven directly (crate /verif/miri) under the undefined-behaviour interpreter with the same value oracles",
   text="Pairs of subsets of 5-element universes (f64, signed zeros, u8, i64, rationals with unreduced spellings, strings, bools, tuples, nested sets with permuted inner orders) are written as literals in permuted insertion orders and combined with every set operator, relation and membership test, chained, and built by comprehensions; results are compared with the mathematical result after mapping elements back to universe ids learned from singleton literals. Operands are written as variables or inline literals in every combination; sets converted from matrices with repeated entries and literals of mixed element kinds (must be rejected) are included. Every operation and relation is also called by name (set/union(a, b), ...) and must return what the glyph form returns.",
   note="Element identity is the language's own equality (0 = -0, 2/4 = 1/2, {1,2} = {2,1}). Universes whose spellings exercise a recorded defect (signed zeros, permuted inner sets) are separate cells so the plain universes stay fully monitored.",
   ref="6/C14"),
 "C06": dict(
   technique="runtime monitoring: differential execution (interpreter session A vs compile -> from_bytes -> run_program in a FRESH interpreter B) over a construct sweep and typed composite programs; every stage under catch_unwind in a subprocess; unregistered-function attribution by compiling each plan step alone; ASan flavour in thorough",
   text="Each generated program is interpreted, compiled, loaded and run in a fresh interpreter; canonical results must be equal, restricted-class programs must compile, load and run, and no stage may panic, hang or abort. Failures are attributed to the plan arm whose bytecode names an unregistered function. Programs end in a bare expression half of the time, contain non-ASCII strings and names, matrices of every integer kind, complex and rational arithmetic, and a sweep of every registered native function x 37 argument shapes; for assignment-free programs the loaded plan is re-evaluated once (step) and must give the same result. Containers (set, table column, record field, tuple item) of every scalar element kind are compiled as definitions and as bare final expressions.",
   note="Only the program result is compared (the compiler emits no symbol section, so a fresh interpreter has no variables to compare). Composite programs are mostly drawn from the constructs whose bytecode is registered so that recorded registry gaps do not mask the rest.",
   ref="6/C06"),
 "C07": dict(
   technique="runtime monitoring: exhaustive truncation / single-bit-flip / burst enumeration and CRC-repaired structural mutation of emitted files against the real loader, with a counting global allocator (largest request, peak), catch_unwind and a subprocess watchdog as monitors; round-trip and decoded-vs-CompileCtx comparison",
   text="For every corpus file: to_bytes(from_bytes(b)) = b and the decoded header, constants and instructions equal what the compiler holds; every truncation, every single-bit flip and bursts up to 32 bits must be rejected; hostile header fields, hostile words over every body byte, splices and random byte strings (checksum recomputed) must neither panic, abort, exceed the allocation bound nor hang the loader, the constant decoder or the re-encoder. Every decoded constant is re-encoded and must reproduce the bytes it was decoded from; a decode error on an emitted file is a violation; mutated files also go through the path-based loader (load_program_from_file), which must agree with from_bytes.",
   note="Bound: largest single request <= 64 MiB + 64 x file length; the monitor refuses requests above 1 GiB so they are observed as aborts. Hangs surface through the watchdog as inconclusive (never a verdict by wall-clock).",
   ref="6/C07"),
 "C19": dict(
   technique="runtime monitoring: snapshot comparison across independent interpreters, across step(0,n) vs n single steps, and across separate worker processes (digest of all snapshots per program compared by the driver); invariance monitor for assignment-free programs; Miri stage: the kernels these constructs dispatch to are driven directly (crate /verif/miri) under the undefined-behaviour interpreter with the same value oracles",
   text="Each generated program is interpreted and its plan re-run for n in {1,2,3,7} steps in fresh interpreters; snapshots of all variables must agree between two interpreters, between one n-step request and n single steps, and (through digests) between 3 (quick) / 8 (thorough) separate processes with different hash seeds; programs without assignment statements must keep every variable exactly as the first evaluation left it. The corpus of 632 test programs and a sweep of every registered native function x argument shapes (variables and literals) are stepped too; a profiled interpreter must take the same steps. An index-form sweep (every 1-D and 2-D subscript form of C03, inline or through variables) is re-evaluated as assignment-free programs.",
   note="Panics escaping step() are caught and reported; the digest covers the snapshot after interpret and after every step count.",
   ref="6/C19"),
 "C08": dict(
   technique="runtime monitoring: round-trip oracle parse -> format -> parse with structural comparison of the serialised syntax trees (source ranges and whitespace tokens erased), idempotence check, and a semantic twin (both trees interpreted, results and symbols compared) over a static corpus, generated composites and the repository's documents",
   text="632 corpus programs (harvested once from the repository's tests, covering every grammar construct), seeded typed composites and every .mec document are formatted; the text must re-parse to the same normalised tree, be a fixed point of formatting, and (for executable programs) evaluate to the same result and symbols. Differences are classified by the value-free path of the first differing node or by the construct responsible for an unparsable output. A fourth stratum sweeps surface forms: subscript chains in every position, 46 operator spellings and ordered operator pairs with both parenthesisations, unary forms, kind annotations of every kind constructor, function definitions and calls.",
   note="The text formatter has many recorded emitter defects (multi-row matrices, tables, state machines, documents); composites are drawn mostly from constructs that round-trip so the remaining emitters stay monitored; failing documents are listed exactly.",
   ref="6/C08"),
 "C09": dict(
   technique="runtime monitoring: totality oracle over hostile inputs in subprocess workers (panic, abort, stack overflow and hang are observed as process events), a step clock and per-loop progress guard hooked into the parser (cfg mech_verif), determinism digests across replica workers, parser error reports checked against the input (ranges inside the text, format_error total); thorough adds an strace stage (no file or network syscall between the begin/end markers while parsing)",
   text="Corpus programs, repository documents and byte/char/token-level mutations of them (truncation, splice, deletion, duplication, deep nesting, unicode, NUL and control bytes, unbalanced delimiters) are parsed in isolated workers: every input must return a tree or a report within the step budget, every parser loop iteration must consume input, two replica workers must produce identical digests, and every reported error range must lie inside the input and be renderable. Further strata: a Mechdown vocabulary (fences of 30 info strings, $$, links, images, footnotes, lists, callouts, tables, Mika faces), structured front matter (keys x value forms) and 36 well-formed and malformed patterns in 7 pattern positions.",
   note="The step budget is a logical clock (parser combinator entries), not wall time; a wall-clock watchdog firing is inconclusive. Three parser defects found this way are repaired in /repo (fix: commits); error reports that carry the default 0:0 range are a recorded finding.",
   ref="6/C09"),
 "C10": dict(
   technique="runtime monitoring: differential oracle interpret(document) vs interpret(code only) on canonical symbol tables; per-namespace reference sessions compared with the sub-interpreters' symbol tables; static prose corpus swept by snippet x position and by ordered snippet pairs",
   text="Every prose snippet of a static 45-element corpus at every position of a program, every ordered pair of adjacent snippets, and seeded interleavings of generated programs with prose must leave the final variables exactly as the code alone leaves them; statements distributed over named fences must populate one isolated namespace per name (split fences share it), leak nothing into the unnamed program, and a failing statement inside a named fence must not stop the rest of the document. The corpus includes comments and prose with assignment-like tails after a semicolon. The prose corpus includes single-word call-outs of all six sigils and Markdown tables without an alignment row.",
   note="The prose corpus is static and hand written from the Mechdown documentation; code blocks and prose are separated by blank lines.",
   ref="6/C10"),
 "C20": dict(
   technique="runtime monitoring: independent reference expander (line-exact substitution, CommonMark-style fence rule, cycle = revisit on the current inclusion path) compared byte for byte with mech::read_mech_source_file on generated directory trees; exhaustive enumeration of include-edge subsets; thorough adds an strace stage (only read-only opens inside the tree, as many as the reference performs expansions)",
   text="For every subset of include edges over 3 files (and sampled / all subsets over 4 files) in 3 directories, with decorated include lines, fenced and brace look-alikes, repeated includes, missing targets, CRLF, missing trailing newline and a symlinked alias, loading the root must give exactly the reference expansion, report reachable cycles as circular includes, never report acyclic graphs as circular, and name missing files. Fence variants include lines that look like closers but are not, includes after the fence block, CRLF line ends, files that end in a fence or are empty, repeated includes on acyclic graphs, and brace lines containing .mec without ending in it. Genuine closing fences are decorated the ways the fence rule allows (trailing blanks and tabs, longer runs, own indentation).",
   note="Trees are written under /verif/work/ and removed after each case; when a cycle and a missing file are both reachable either error is accepted.",
   ref="6/C20"),
 "C16": dict(
   technique="runtime monitoring: reference evaluator of arm lists (first arm in source order whose pattern matches and whose guard holds, with bindings) compared with interpreted calls over every permutation of arm families and every argument of a small domain; recurrences checked against closed forms; subprocess isolation for stack exhaustion",
   text="Functions (one and two parameters) and match expressions built from literal, variable, wildcard, tuple, array and enum-payload patterns, with guards, are evaluated for every permutation of their arms on every argument of a small domain; arm bodies are tagged so that the selected arm and its binding are visible in the result. Factorial, fibonacci, power, gcd and a tail-recursive countdown (depth 2*10^4 quick, 2*10^5 thorough) are compared with the recurrence; scalar functions are applied to matrices; wrong arity, no matching arm and non-exhaustive matches must be errors. Also: the same variable name at different positions of different arms, tuple patterns of other arity, nested matches that use outer bindings (with a decoy global), tail recursion whose pattern variables are renamed or swapped, broadcasts of u64 / u8 / i64 / f32 functions over non-square matrices. Array patterns (head | tail, two-item prefix, first ... last, head spread, last spread) run over every numeric element kind, as function arms and match arms, with inline arguments and arguments held in variables. Compound patterns nested in tuple patterns (tuple in tuple, three levels, an array pattern as one position) are matched in match and function arms.",
   note="Guards are only generated where the grammar has them (match expressions); a worker abort (stack overflow) is reported as a violation.",
   ref="6/C16"),
 "C17": dict(
   technique="runtime monitoring: offline trace checker over Interpreter::trace_events (start/step/arm/guard/transition/output events) against a reference simulation of generated transition systems; transition limit decided on the count of step events",
   text="Generated machines (1-4 states, two payload fields, overlapping guards, fallbacks, loops) are run on inputs 0..7 with tracing on; every traced transition (arm index, next state, payload values) and the output must equal the reference simulation; ill-formed machines (wrong argument kind, undeclared target, declared but unimplemented state) must be rejected; non-terminating machines must stop with an error after exactly max_steps step events. Half of the multi-branch states are written as two arms for the same state (fall-through); array state patterns re-bind prefix / suffix variables across steps; machines are invoked from transitions and comprehensions with local names, and wrong-kind elements in a comprehension must be rejected. Array-pattern machines run over every numeric element kind, and a matrix of declared argument kinds x arguments (scalar kinds, unsized and sized matrix kinds; inline or held in a variable) demands acceptance exactly when the kinds agree. Array machines subscript pattern variables and state arguments next to globals of the same names; the invocation form rotates between a bare invocation, a definition read back and the declaration form #inst := #M(..).",
   note="Trace parsing relies on the rendered event messages (arm[i] ... -> :State(...) u64(@addr:value)); an unparsable transition event makes the case inconclusive, never a violation.",
   ref="6/C17"),
 "C18": dict(
   technique="runtime monitoring: relational-algebra reference joins over canonical rows compared (as multisets over the union of columns, with column kinds) with interpreted join expressions on generated tables; ordered comparison for row selection",
   text="Pairs of generated tables (1-3 columns, 0-2 shared names, 1-5 rows, duplicate keys so that many-to-many matches occur, five column kinds) are joined with all six operators in symbol and word form; the result must be exactly the relational-algebra multiset of rows, columns that can be missing must be optional kinds and hold the empty value exactly in unmatched rows; selecting rows by index, repeated index vector and mask must return exactly those rows in order. Selections are also chained on temporary tables (vector then vector, mask then vector) and one mask in six selects no row. Unparenthesised chains of two table operators (all six) must group from the left; index literals of every unsigned kind and indices held in variables select the same rows. Chained selections end in index vectors and in logical masks; table columns take every integer and float kind.",
   note="An empty result may be a 0-row table or an error; single-row tables are not selected through a one-element mask (that literal is a scalar).",
   ref="6/C18"),
}
NOT_YET = "not claimed yet: the monitor for this property is still being built in this session (see DESIGN.md section 6 for the planned check)"

hooks_commit = subprocess.run(["git","-C","/repo","log","--format=%H","--grep=^verif hooks"],capture_output=True,text=True).stdout.split()
m = {
 "version": 1,
 "setup_cmd": "cd /verif/harness && CARGO_NET_OFFLINE=true RUSTC_BOOTSTRAP=1 cargo build --offline --profile chk",
 "hooks": {
   "guard": "mech_verif",
   "enable": "RUSTFLAGS='--cfg mech_verif' (set in /verif/harness/.cargo/config.toml as build.rustflags)",
   "baseline_off_cmd": "cd /repo && cargo test --workspace --no-fail-fast --offline",
   "source_commits": hooks_commit,
   "add_only": True,
 },
 "engines": [
   {"name":"mv","path":"/verif/harness","serves_properties":sorted(CLAIMS.keys()),"kind_free_text":"Rust driver + worker subprocesses running the real mech crates (path dependencies on /repo) under generated workloads; JSONL event logs; reference-model and differential oracles; known-findings matcher"},
 ],
 "checks": [],
 "notes": "All checks are `bin/check <ID> <tier>`: it rebuilds the harness against /repo's working tree with --cfg mech_verif and runs the driver. Exit 0 held / 1 VIOLATION / 2 INCONCLUSIVE (too little observed) / 3 BUILD-FAILED.",
 "not_applicable": [],
}
for i in ids:
  if i in CLAIMS:
    c=CLAIMS[i]
    m["checks"].append({
      "property_id": i,
      "quick_cmd": f"bin/check {i} quick",
      "thorough_cmd": f"bin/check {i} thorough",
      "evidence_file": f"/verif/evidence/{i}.json",
      "replay_cmd_template": "/verif/target/chk/mv replay {path}",
      "engine": "mv",
      "level_claimed": {"category": c.get("category","exploration"), "text": c["text"], "design_ref": c["ref"]},
      "level_note": c["note"],
      "technique": c["technique"],
    })
  else:
    m["not_applicable"].append({"property_id": i, "reason": NOT_YET})
json.dump(m, open('/verif/MANIFEST.json','w'), indent=1)
print("claimed:", sorted(CLAIMS.keys()))
