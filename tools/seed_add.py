#!/usr/bin/env python3
"""seed_add.py PROP N SRCDIR 'needs' 'caught|missed' 'classes' 'confirm line' ['check cmd']
copies SRCDIR/patchN.diff, demoN.rs (and the agent's notes) to /verif/seeded/PROP-N/ and writes meta.json"""
import json,sys,shutil,os,re
prop,n,src,needs,status,classes,confirm=sys.argv[1:8]
dest0=os.environ.get("DEST_N", n)
cmd=sys.argv[8] if len(sys.argv)>8 else f"git -C /repo apply /verif/seeded/{prop}-{dest0}/patch.diff && /verif/bin/check {prop} quick; git -C /repo checkout -- ."
dest=os.environ.get("DEST_N", n)
d=f"/verif/seeded/{prop}-{dest}"
os.makedirs(d,exist_ok=True)
shutil.copy(f"{src}/patch{n}.diff",f"{d}/patch.diff")
shutil.copy(f"{src}/demo{n}.rs",f"{d}/demo.rs")
notes=open(f"{src}/notes.md").read() if os.path.exists(f"{src}/notes.md") else ""
open(f"{d}/agent_notes.md","w").write(notes)
files=sorted(set(re.findall(r'^\+\+\+ b/(\S+)',open(f"{d}/patch.diff").read(),re.M)))
meta=dict(property=prop,seed_id=f"{prop}-{dest}",files=files,needs_to_manifest=needs,
  produced_by="fresh sub-agent given only the property text and a scratch worktree",
  confirmed_by_me=confirm,
  what_i_ran=[f"tools/mutant_confirm.sh <scratch worktree> patch.diff demo.rs   (demo on clean tree, demo with patch, pinned suite with patch)",
              f"tools/mutant_eval.sh {prop} <scratch worktree> patch.diff   (the quick check of {prop} built against the patched worktree; same as: {cmd})"],
  check_result=status,violation_classes=classes)
json.dump(meta,open(f"{d}/meta.json","w"),indent=1)
print("wrote",d)
