#!/bin/bash
# usage: mutant_confirm.sh <station-worktree> <patch.diff> <demo.rs> [tests-dir-relative]
# My own confirmation of a sub-agent's change, in a scratch worktree of /repo (never /repo itself):
#   1. the demo passes on the clean tree, 2. the patch applies and builds, 3. the pinned suite passes with it,
#   4. the demo fails with it.  Prints one CONFIRM line; leaves the worktree clean.
WT=$1; PATCH=$2; DEMO=$3; TD=${4:-tests}
export CARGO_NET_OFFLINE=true RUSTC_BOOTSTRAP=1
cd $WT || exit 9
git checkout -q -- . ; rm -f $TD/demo_*.rs
cp $DEMO $TD/demo_confirm.rs
clean=$(cargo test --offline --test demo_confirm 2>&1 | grep -E "^test result" | tail -1)
git apply $PATCH || { echo "CONFIRM apply-failed $PATCH"; rm -f $TD/demo_confirm.rs; exit 8; }
mut=$(cargo test --offline --test demo_confirm 2>&1 | grep -E "^test result|^error" | tail -1)
rm -f $TD/demo_confirm.rs
suite=$(cargo test --workspace --no-fail-fast --offline 2>&1 | grep -E "^test result|^error(\[|:)" | awk '/^error/{e++} /^test result/{p+=$4; f+=$6} END{printf "passed=%d failed=%d build_errors=%d", p, f, e}')
git checkout -q -- .
echo "CONFIRM patch=$PATCH | demo clean: $clean | demo mutant: $mut | suite with patch: $suite"
