#!/bin/bash
# usage: mutant_round.sh <PROP> <worktree> [tier]  -- confirm + evaluate every out/patchN.diff of a sub-agent's worktree; log to /verif/work/round-<PROP>.log
P=$1; WT=$2; TIER=${3:-quick}
export CARGO_INCREMENTAL=0 CARGO_PROFILE_DEV_DEBUG=0 CARGO_PROFILE_TEST_DEBUG=0
L=/verif/work/round-$P.log; : > $L
for n in 1 2 3; do
  [ -f $WT/out/patch$n.diff ] || continue
  echo "### $P patch$n" >> $L
  /verif/tools/mutant_confirm.sh $WT $WT/out/patch$n.diff $WT/out/demo$n.rs >> $L 2>&1
  /verif/tools/mutant_eval.sh $P $WT $WT/out/patch$n.diff $TIER >> $L 2>&1
done
rm -rf /tmp/mh-$(basename $WT)/target
echo "ROUND-DONE $P" >> $L
