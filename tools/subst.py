#!/usr/bin/env python3
"""subst.py FILE  (reads pairs from stdin as python literal list [(old,new),...]); EOL-style preserving exact-once replacement."""
import sys, ast
path=sys.argv[1]
pairs=ast.literal_eval(sys.stdin.read())
s=open(path,newline='').read()
crlf = s.count('\r\n') > s.count('\n')/2
for old,new in pairs:
    if crlf:
        old=old.replace('\r\n','\n').replace('\n','\r\n'); new=new.replace('\r\n','\n').replace('\n','\r\n')
    n=s.count(old)
    if n!=1:
        print("ERROR: expected exactly one occurrence, found",n,"of",repr(old[:80])); sys.exit(1)
    s=s.replace(old,new)
open(path,'w',newline='').write(s)
print("ok")
