#!/bin/bash
# usage: mutant_eval.sh <PROP> <worktree> <patch.diff> [tier]   -- evaluates one mutant against a COPY of the harness bound to the worktree
# (equivalent to `git -C /repo apply` + bin/check, but usable in parallel and without touching /repo)
P=$1; WT=$2; PATCH=$3; TIER=${4:-quick}
H=/tmp/mh-$(basename $WT)
cd $WT && git checkout -q -- . && git apply $PATCH || { echo "APPLY-FAILED $PATCH"; exit 9; }
mkdir -p $H/v/evidence
rsync -a --delete --exclude target /verif/harness/ $H/harness/
sed -i "s#/repo#$WT#g" $H/harness/Cargo.toml
sed -i "s#target-dir = \"/verif/target\"#target-dir = \"$H/target\"#" $H/harness/.cargo/config.toml
cp /verif/known_findings.json $H/v/
# the Miri kernel stage, bound to the same worktree
rsync -a --delete --exclude target /verif/miri/ $H/miri/
sed -i "s#/repo#$WT#g" $H/miri/Cargo.toml
sed -i "s#target-dir = .*#target-dir = \"$H/miri/target\"#" $H/miri/.cargo/config.toml
export VERIF_MIRI_DIR=$H/miri
cd $H/harness && CARGO_NET_OFFLINE=true cargo build --offline --profile chk > $H/build.log 2>&1 || { echo "BUILD-FAILED"; tail -5 $H/build.log; cd $WT && git checkout -q -- .; exit 8; }
rm -rf $H/v/evidence/replay/$P; VERIF_DIR=/verif $H/target/chk/mv check $P --tier $TIER --verif $H/v > $H/out-$P-$(basename $PATCH).log 2>&1
RC=$?
echo "== $P $(basename $PATCH) exit=$RC"
grep -E "^property=|^VIOLATION|^INCONCLUSIVE" $H/out-$P-$(basename $PATCH).log | head -4
echo "unlisted violation classes (from witnesses):"
python3 - <<PY
import json,glob,collections
c=collections.Counter(json.load(open(f))['class'] for f in glob.glob('$H/v/evidence/replay/$P/w*.json'))
print('  '+', '.join(f'{k} x{v}' for k,v in c.most_common(8)) if c else '  none')
PY
cd $WT && git checkout -q -- .
