#!/usr/bin/env python3
"""Regenerates the generated blocks of DESIGN.md (between <!-- BEGIN x --> and <!-- END x --> markers) from
known_findings.json, seeded/*/meta.json and evidence/*.json."""
import json,glob,os,re
V='/verif'
kf=json.load(open(f'{V}/known_findings.json'))
def esc(s): return s.replace('|','\\|').replace('\n',' ')
blocks={}
# fixes
rows=["| id | property | commit | what failed before the fix |","|---|---|---|---|"]
for k in kf:
    if k['status']=='fixed': rows.append(f"| {k['id']} | {k['property']} | `{k.get('commit','')}` | {esc(k['what'])} |")
blocks['fixes']='\n'.join(rows)
# open findings (documents collapsed)
rows=["| id | property | failure class(es) | what fails | pinned reproducer |","|---|---|---|---|---|"]
docs=[k for k in kf if k['id'].startswith('KF-C08-F')]
for k in kf:
    if k['status']!='open' or k['id'].startswith('KF-C08-F'): continue
    pin=''
    if k.get('pinned'):
        i=k['pinned']['input']
        pin=i.get('src') or i.get('text') or i.get('stmt') or i.get('doc') or ''
        if not pin and 'stmts' in i: pin=' ; '.join(s['src'] for s in i['stmts'])
        if not pin and 'calls' in i: pin=(i.get('def') or '')+' ; '+i['calls'][0]['src']
        if not pin and 'pairs' in i: pin=f"y<{i.get('to')}> := x"
        if not pin and 'machine' in i: pin='(generated machine, see known_findings.json)'
        if not pin and 'op' in i and 'lhs' in i: pin=f"{i['op']} on {json.dumps(i['lhs'])[:40]}"
        pin=esc(str(pin))[:110]
    rows.append(f"| {k['id']} | {k['property']} | `{esc(k['failure'])[:90]}` | {esc(k['what'])} | `{pin}` |")
nfiles=sum(len(k['cell'].split(' | ')) for k in docs)
rows.append(f"| KF-C08-F00 … F{len(docs)-1:02d} | C08 | one entry per failure class | {nfiles} of the repository's .mec documents do not survive the text formatter (prose, lists, fences and embedded code are emitted in forms that re-parse differently or not at all); each entry lists the exact files, so any other document, or a listed one failing differently, is reported | (the files themselves) |")
blocks['findings']='\n'.join(rows)
# seeded mutants
rows=["| seeded change | property | files | what it needs to manifest | result of the property's check | violation classes reported |","|---|---|---|---|---|---|"]
for m in sorted(glob.glob(f'{V}/seeded/*/meta.json')):
    d=json.load(open(m))
    rows.append(f"| {os.path.basename(os.path.dirname(m))} | {d['property']} | {esc(', '.join(os.path.basename(x) for x in d.get('files',[])))} | {esc(d.get('needs_to_manifest',''))} | {esc(d.get('check_result',''))} | `{esc(d.get('violation_classes',''))}` |")
blocks['seeded']='\n'.join(rows)
# evidence summary
rows=["| property | tier | evaluations | distinct non-trivial | cells | held / violated(listed) / inconclusive | wall s |","|---|---|---|---|---|---|---|"]
for f in sorted(glob.glob(f'{V}/evidence/C*.json')):
    e=json.load(open(f)); c=e['coverage']; v=c.get('verdicts',{})
    rows.append(f"| {e['property_id']} | {e['tier']} | {c['evaluations']} | {c['distinct_nontrivial']} | {c.get('cells_visited','')} | {v.get('held')} / {v.get('violated')} / {v.get('inconclusive')} | {e['wall_s']:.0f} |")
blocks['evidence']='\n'.join(rows)
s=open(f'{V}/DESIGN.md').read()
for name,body in blocks.items():
    pat=re.compile(r'(<!-- BEGIN %s -->\n).*?(<!-- END %s -->)'%(name,name),re.S)
    if pat.search(s): s=pat.sub(lambda m: m.group(1)+body+'\n'+m.group(2),s)
open(f'{V}/DESIGN.md','w').write(s)
print({k:len(v.split(chr(10))) for k,v in blocks.items()})
