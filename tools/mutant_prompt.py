#!/usr/bin/env python3
"""prints the sub-agent prompt for property ID (only the property text is disclosed, nothing from /verif)"""
import json,sys
pid=sys.argv[1]
rnd=sys.argv[2] if len(sys.argv)>2 else ''
import glob,os
avoid=''
if rnd:
    items=[]
    for m in sorted(glob.glob(f'/verif/seeded/{pid}-*/meta.json')):
        d=json.load(open(m)); items.append(f"    - {', '.join(d['files'])}: {d['needs_to_manifest']}")
    if items: avoid="\n\nOther people have already produced the following changes for this property; yours must use DIFFERENT mechanisms (other functions, other forms of input, other code paths - ideally other files), not variations of these:\n"+"\n".join(items)
p=[json.loads(l) for l in open('/verif/properties.jsonl') if json.loads(l)['id']==pid][0]
wt=f"/tmp/mut{rnd}-{pid}"
low=pid.lower()
TEXT=(f"""You are working on the Rust project mech-lang/mech (the Mech programming language: a nom-based parser and a text formatter in src/syntax, a tree-walking interpreter in src/interpreter, core types and the bytecode compiler/loader in src/core, stdlib "machines" in machines/*, CLI + file loading (src/mechfs.rs) in src/). A private git worktree of the repository has been created for you at {wt} (detached HEAD). Work ONLY inside {wt}. Never read, write or run anything in /repo or /verif, and never commit anywhere.

Behavioural property of the system (it is supposed to hold for every input):

  {p['title']}
  {p['statement']}

Your task: produce a small, realistic source change (the kind of bug a developer could plausibly introduce: an off-by-one, swapped operands in one macro arm, a wrong index in one kernel, a dropped or weakened check, a wrong constant, a missing case, a copy-paste slip for one type or one shape, a reordered pair of statements...) that BREAKS this property, while
  (a) the project still compiles, and
  (b) the existing test suite still passes completely: run `cd {wt} && CARGO_INCREMENTAL=0 CARGO_PROFILE_DEV_DEBUG=0 CARGO_PROFILE_TEST_DEBUG=0 CARGO_TARGET_DIR={wt}/target cargo test --workspace --no-fail-fast --offline 2>&1 | grep -E "^test result|FAILED|panicked"` (no network is available; expect "7 passed", "83 passed", "562 passed" and no failures; the first build takes several minutes, later ones are incremental; disk space is scarce, so always keep the CARGO_INCREMENTAL=0 and the two CARGO_PROFILE_*_DEBUG=0 variables on every cargo command and use only this one target directory), and
  (c) the break needs something SPECIFIC to manifest (a particular element kind, shape, form, operand order, operator, value range, multi-step sequence, unusual input, or two cooperating sites that each look fine alone) - not something that ordinary use would expose at once.
First check on the unchanged tree that the behaviour you are going to break is actually correct there (the tree has some pre-existing defects; do not rely on those).

Also write a demonstration: a Rust integration test file `{wt}/tests/demo_{low}.rs` in the style of {wt}/tests/interpreter.rs and {wt}/tests/bytecode.rs (parse with `mech_syntax::parser::parse`, evaluate with `mech_interpreter::Interpreter::new(0).interpret(&tree)`, `intrp.compile()`, `ParsedProgram::from_bytes`, `mech_syntax::formatter::Formatter`, `mech::read_mech_source_file`, ... whatever public API the property concerns) that FAILS with your change applied and PASSES on the unchanged tree. Verify both directions yourself (`git checkout -- <files>` to get the clean tree; do not use git stash).

Please produce TWO independent mutants if you can (each applied to a clean tree, in different files or mechanisms). Deliver in {wt}/out/:
  - patch1.diff (and patch2.diff): `git diff` of the SOURCE change only (do not include the demo test or build output), relative to the worktree root, so that `git apply patch1.diff` works on a clean checkout (many source files use CRLF line endings: test with `git apply --check` on a clean tree);
  - demo1.rs (and demo2.rs): the demonstration test for the corresponding patch;
  - notes.md: for each mutant, what you changed, why it violates the property, what exactly is needed for it to manifest, and the commands you ran with their results (test suite with the patch: counts; demo with / without the patch).
Leave the worktree's tracked source files UNMODIFIED at the end (git checkout -- . after saving the patches; leave out/ in place). Do not delete the target directory. Report briefly what you produced.""")
MARK="First check on the unchanged tree"
print(TEXT.replace(MARK, (avoid+"\n\n" if avoid else "")+MARK, 1))
