#!/usr/bin/env python3
"""kf_add.py ID PROPERTY 'cell glob' 'failure class' FLAVOUR 'what' [witness.json]  -- adds/replaces an open known finding, pinned = the witness' case"""
import sys, json
id_, prop, cell, failure, flavour, what = sys.argv[1:7]
if flavour=='*': flavour='any'
pinned=None
if len(sys.argv)>7:
    w=json.load(open(sys.argv[7])); pinned=w['case']; pinned['id']='pinned-'+id_
kf=json.load(open('/verif/known_findings.json'))
kf=[k for k in kf if k['id']!=id_]
kf.append({"id":id_,"property":prop,"status":"open","cell":cell,"failure":failure,"flavour":flavour,"what":what,"pinned":pinned})
json.dump(kf,open('/verif/known_findings.json','w'),indent=1)
print("added",id_)
