#!/bin/bash
# usage: seed_next.sh PROP N WT 'needs' 'status' 'classes'   -- records WT/out/patchN as the next free /verif/seeded/PROP-k (confirm line from work/round-PROP.log)
P=$1; N=$2; WT=$3
k=1; while [ -d /verif/seeded/$P-$k ]; do k=$((k+1)); done
CONF=$(grep "CONFIRM patch=$WT/out/patch$N.diff" /verif/work/round-$P.log | sed 's/^CONFIRM patch=[^|]*|//')
[ -z "$CONF" ] && { echo "no confirm line for $P patch$N"; exit 1; }
DEST_N=$k python3 /verif/tools/seed_add.py $P $N $WT/out "$4" "$5" "$6" "$CONF"
