//! Canonical (deep-copied, order-normalised) value model.
//! `canon(&Value) -> CVal` never keeps a reference into interpreter memory.

use mech_core::*;
use mech_core::matrix::Matrix;
use serde::{Deserialize, Serialize};

/// Exact scalar payloads. Floats are kept as bit patterns (all NaNs collapsed).
#[derive(Clone, Debug, PartialEq, Eq, Hash, PartialOrd, Ord, Serialize, Deserialize)]
pub enum Sc {
  U(#[serde(with = "as_str")] u128),
  I(#[serde(with = "as_str")] i128),
  F32(u32),
  F64(u64),
  R(i64, i64),
  C(u64, u64),
  B(bool),
  S(String),
}

pub mod as_str {
  use serde::{Deserialize, Deserializer, Serializer};
  pub fn serialize<T: std::fmt::Display, S: Serializer>(v: &T, s: S) -> Result<S::Ok, S::Error> { s.serialize_str(&v.to_string()) }
  pub fn deserialize<'de, T: std::str::FromStr, D: Deserializer<'de>>(d: D) -> Result<T, D::Error> {
    let s = String::deserialize(d)?;
    s.parse::<T>().map_err(|_| serde::de::Error::custom("bad integer"))
  }
}

pub fn f32_bits(x: f32) -> u32 { if x.is_nan() { f32::NAN.to_bits() } else { x.to_bits() } }

impl Sc {
  pub fn f64(x: f64) -> Sc { Sc::F64(canon_f64(x)) }
  pub fn f32(x: f32) -> Sc { Sc::F32(f32_bits(x)) }
  pub fn as_f64(&self) -> Option<f64> { if let Sc::F64(b) = self { Some(f64::from_bits(*b)) } else { None } }
  pub fn as_f32(&self) -> Option<f32> { if let Sc::F32(b) = self { Some(f32::from_bits(*b)) } else { None } }
  pub fn show(&self) -> String {
    match self {
      Sc::U(x) => format!("{}", x),
      Sc::I(x) => format!("{}", x),
      Sc::F32(b) => format!("{:?}", f32::from_bits(*b)),
      Sc::F64(b) => format!("{:?}", f64::from_bits(*b)),
      Sc::R(n, d) => format!("{}/{}", n, d),
      Sc::C(r, i) => format!("{:?}+{:?}i", f64::from_bits(*r), f64::from_bits(*i)),
      Sc::B(b) => format!("{}", b),
      Sc::S(s) => format!("{:?}", s),
    }
  }
}

pub fn canon_f64(x: f64) -> u64 { if x.is_nan() { 0x7ff8_0000_0000_0000 } else { x.to_bits() } }

#[derive(Clone, Debug, PartialEq, Eq, Hash, PartialOrd, Ord, Serialize, Deserialize)]
pub enum CVal {
  /// scalar: kind name, payload
  S(String, Sc),
  Atom(String),
  /// matrix: element kind, rows, cols, column-major elements
  M(String, usize, usize, Vec<CVal>),
  /// set: declared element kind, declared num_elements, elements sorted
  Set(String, usize, Vec<CVal>),
  Map(String, String, Vec<(CVal, CVal)>),
  Tuple(Vec<CVal>),
  /// record: (field name, kind, value) sorted by name
  Record(Vec<(String, String, CVal)>),
  /// table: rows, (column name, kind, cells) sorted by name
  Table(usize, Vec<(String, String, Vec<CVal>)>),
  Enum(String, Vec<(String, Option<CVal>)>),
  Typed(Box<CVal>, String),
  Kind(String),
  EmptyKind(String),
  Id(u64),
  Index(usize),
  IndexAll,
  Empty,
}

impl CVal {
  pub fn kind_str(&self) -> String {
    match self {
      CVal::S(k, _) => k.clone(),
      CVal::M(k, r, c, _) => format!("[{}]:{},{}", k, r, c),
      CVal::Set(k, _, _) => format!("{{{}}}", k),
      CVal::Tuple(_) => "tuple".into(),
      CVal::Record(_) => "record".into(),
      CVal::Table(..) => "table".into(),
      CVal::Atom(_) => "atom".into(),
      CVal::Empty => "_".into(),
      x => format!("{:?}", x).chars().take(12).collect(),
    }
  }
  pub fn shape(&self) -> (usize, usize) {
    match self { CVal::M(_, r, c, _) => (*r, *c), _ => (1, 1) }
  }
  pub fn elems(&self) -> Vec<CVal> {
    match self { CVal::M(_, _, _, e) => e.clone(), x => vec![x.clone()] }
  }
  pub fn elem_kind(&self) -> String {
    match self { CVal::M(k, ..) => k.clone(), CVal::S(k, _) => k.clone(), x => x.kind_str() }
  }
  pub fn is_matrix(&self) -> bool { matches!(self, CVal::M(..)) }
  /// short human rendering
  pub fn show(&self) -> String {
    match self {
      CVal::S(k, v) => format!("{}<{}>", v.show(), k),
      CVal::Atom(a) => format!(":{}", a),
      CVal::M(k, r, c, e) => {
        let mut s = format!("[{}:{}x{}|", k, r, c);
        for (i, x) in e.iter().enumerate() {
          if i > 0 { s.push(' '); }
          match x { CVal::S(_, v) => s.push_str(&v.show()), o => s.push_str(&o.show()) }
        }
        s.push(']');
        s
      }
      CVal::Set(k, n, e) => format!("{{{}#{}|{}}}", k, n, e.iter().map(|x| x.show()).collect::<Vec<_>>().join(",")),
      CVal::Tuple(e) => format!("({})", e.iter().map(|x| x.show()).collect::<Vec<_>>().join(",")),
      CVal::Record(f) => format!("{{{}}}", f.iter().map(|(n, k, v)| format!("{}<{}>:{}", n, k, v.show())).collect::<Vec<_>>().join(",")),
      CVal::Table(r, cols) => format!("|{}rows {}|", r, cols.iter().map(|(n, k, v)| format!("{}<{}>=[{}]", n, k, v.iter().map(|x| x.show()).collect::<Vec<_>>().join(" "))).collect::<Vec<_>>().join(";")),
      CVal::Typed(v, k) => format!("{}::<{}>", v.show(), k),
      x => format!("{:?}", x),
    }
  }
}

fn mat<T: Clone + std::fmt::Debug + PartialEq + 'static>(k: &str, m: &Matrix<T>, f: impl Fn(&T) -> CVal) -> CVal {
  let sh = m.shape();
  let v = m.as_vec();
  CVal::M(k.to_string(), sh[0], sh[1], v.iter().map(|x| f(x)).collect())
}

pub fn sc_u(k: &str, x: u128) -> CVal { CVal::S(k.into(), Sc::U(x)) }
pub fn sc_i(k: &str, x: i128) -> CVal { CVal::S(k.into(), Sc::I(x)) }
pub fn sc_f64(x: f64) -> CVal { CVal::S("f64".into(), Sc::f64(x)) }
pub fn sc_f32(x: f32) -> CVal { CVal::S("f32".into(), Sc::f32(x)) }
pub fn sc_b(x: bool) -> CVal { CVal::S("bool".into(), Sc::B(x)) }
pub fn sc_s(x: &str) -> CVal { CVal::S("string".into(), Sc::S(x.to_string())) }
pub fn sc_r(n: i64, d: i64) -> CVal { CVal::S("r64".into(), Sc::R(n, d)) }
pub fn sc_c(re: f64, im: f64) -> CVal { CVal::S("c64".into(), Sc::C(canon_f64(re), canon_f64(im))) }

pub fn canon(v: &Value) -> CVal {
  match v {
    Value::U8(x) => sc_u("u8", *x.borrow() as u128),
    Value::U16(x) => sc_u("u16", *x.borrow() as u128),
    Value::U32(x) => sc_u("u32", *x.borrow() as u128),
    Value::U64(x) => sc_u("u64", *x.borrow() as u128),
    Value::U128(x) => sc_u("u128", *x.borrow()),
    Value::I8(x) => sc_i("i8", *x.borrow() as i128),
    Value::I16(x) => sc_i("i16", *x.borrow() as i128),
    Value::I32(x) => sc_i("i32", *x.borrow() as i128),
    Value::I64(x) => sc_i("i64", *x.borrow() as i128),
    Value::I128(x) => sc_i("i128", *x.borrow()),
    Value::F32(x) => sc_f32(*x.borrow()),
    Value::F64(x) => sc_f64(*x.borrow()),
    Value::String(x) => sc_s(&x.borrow()),
    Value::Bool(x) => sc_b(*x.borrow()),
    Value::R64(x) => { let r = x.borrow(); sc_r(*r.numer(), *r.denom()) }
    Value::C64(x) => { let c = x.borrow(); sc_c(c.0.re, c.0.im) }
    Value::Atom(x) => CVal::Atom(x.borrow().name()),
    Value::MatrixIndex(m) => mat("ix", m, |x| CVal::Index(*x)),
    Value::MatrixBool(m) => mat("bool", m, |x| sc_b(*x)),
    Value::MatrixU8(m) => mat("u8", m, |x| sc_u("u8", *x as u128)),
    Value::MatrixU16(m) => mat("u16", m, |x| sc_u("u16", *x as u128)),
    Value::MatrixU32(m) => mat("u32", m, |x| sc_u("u32", *x as u128)),
    Value::MatrixU64(m) => mat("u64", m, |x| sc_u("u64", *x as u128)),
    Value::MatrixU128(m) => mat("u128", m, |x| sc_u("u128", *x)),
    Value::MatrixI8(m) => mat("i8", m, |x| sc_i("i8", *x as i128)),
    Value::MatrixI16(m) => mat("i16", m, |x| sc_i("i16", *x as i128)),
    Value::MatrixI32(m) => mat("i32", m, |x| sc_i("i32", *x as i128)),
    Value::MatrixI64(m) => mat("i64", m, |x| sc_i("i64", *x as i128)),
    Value::MatrixI128(m) => mat("i128", m, |x| sc_i("i128", *x)),
    Value::MatrixF32(m) => mat("f32", m, |x| sc_f32(*x)),
    Value::MatrixF64(m) => mat("f64", m, |x| sc_f64(*x)),
    Value::MatrixString(m) => mat("string", m, |x| sc_s(x)),
    Value::MatrixR64(m) => mat("r64", m, |x| sc_r(*x.numer(), *x.denom())),
    Value::MatrixC64(m) => mat("c64", m, |x| sc_c(x.0.re, x.0.im)),
    Value::MatrixValue(m) => mat("*", m, |x| canon(x)),
    Value::Set(s) => {
      let s = s.borrow();
      let mut e: Vec<CVal> = s.set.iter().map(canon).collect();
      e.sort();
      CVal::Set(format!("{}", s.kind), s.num_elements, e)
    }
    Value::Map(m) => {
      let m = m.borrow();
      let mut e: Vec<(CVal, CVal)> = m.map.iter().map(|(k, v)| (canon(k), canon(v))).collect();
      e.sort();
      CVal::Map(format!("{}", m.key_kind), format!("{}", m.value_kind), e)
    }
    Value::Tuple(t) => CVal::Tuple(t.borrow().elements.iter().map(|x| canon(x)).collect()),
    Value::Record(r) => {
      let r = r.borrow();
      let mut f: Vec<(String, String, CVal)> = Vec::new();
      for (i, (id, val)) in r.data.iter().enumerate() {
        let name = r.field_names.get(id).cloned().unwrap_or_else(|| format!("#{}", id));
        let kind = r.kinds.get(i).map(|k| format!("{}", k)).unwrap_or_default();
        f.push((name, kind, canon(val)));
      }
      f.sort();
      CVal::Record(f)
    }
    Value::Table(t) => {
      let t = t.borrow();
      let mut cols: Vec<(String, String, Vec<CVal>)> = Vec::new();
      for (id, (kind, m)) in t.data.iter() {
        let name = t.col_names.get(id).cloned().unwrap_or_else(|| format!("#{}", id));
        cols.push((name, format!("{}", kind), m.as_vec().iter().map(canon).collect()));
      }
      cols.sort();
      CVal::Table(t.rows, cols)
    }
    Value::Enum(e) => {
      let e = e.borrow();
      let names = e.names.borrow();
      let vs = e.variants.iter().map(|(id, p)| (names.get(id).cloned().unwrap_or_else(|| format!("#{}", id)), p.as_ref().map(canon))).collect();
      CVal::Enum(e.name(), vs)
    }
    Value::Id(x) => CVal::Id(*x),
    Value::Index(x) => CVal::Index(*x.borrow()),
    Value::MutableReference(r) => canon(&r.borrow()),
    Value::Typed(v, k) => CVal::Typed(Box::new(canon(v)), format!("{}", k)),
    Value::Kind(k) => CVal::Kind(format!("{}", k)),
    Value::IndexAll => CVal::IndexAll,
    Value::EmptyKind(k) => CVal::EmptyKind(format!("{}", k)),
    Value::Empty => CVal::Empty,
  }
}

/// Build a mech Value from a canonical scalar / matrix (used to bind operands through the API).
pub fn to_value(c: &CVal) -> Value {
  match c {
    CVal::S(k, s) => scalar_value(k, s),
    CVal::M(k, r, c, e) => {
      macro_rules! mk {
        ($variant:ident, $t:ty, $get:expr) => {{
          let v: Vec<$t> = e.iter().map(|x| match x { CVal::S(_, s) => $get(s), _ => panic!("bad elem") }).collect();
          Value::$variant(Matrix::from_vec(v, *r, *c))
        }};
      }
      match k.as_str() {
        "u8" => mk!(MatrixU8, u8, |s: &Sc| if let Sc::U(x) = s { *x as u8 } else { panic!() }),
        "u16" => mk!(MatrixU16, u16, |s: &Sc| if let Sc::U(x) = s { *x as u16 } else { panic!() }),
        "u32" => mk!(MatrixU32, u32, |s: &Sc| if let Sc::U(x) = s { *x as u32 } else { panic!() }),
        "u64" => mk!(MatrixU64, u64, |s: &Sc| if let Sc::U(x) = s { *x as u64 } else { panic!() }),
        "u128" => mk!(MatrixU128, u128, |s: &Sc| if let Sc::U(x) = s { *x } else { panic!() }),
        "i8" => mk!(MatrixI8, i8, |s: &Sc| if let Sc::I(x) = s { *x as i8 } else { panic!() }),
        "i16" => mk!(MatrixI16, i16, |s: &Sc| if let Sc::I(x) = s { *x as i16 } else { panic!() }),
        "i32" => mk!(MatrixI32, i32, |s: &Sc| if let Sc::I(x) = s { *x as i32 } else { panic!() }),
        "i64" => mk!(MatrixI64, i64, |s: &Sc| if let Sc::I(x) = s { *x as i64 } else { panic!() }),
        "i128" => mk!(MatrixI128, i128, |s: &Sc| if let Sc::I(x) = s { *x } else { panic!() }),
        "f32" => mk!(MatrixF32, f32, |s: &Sc| s.as_f32().unwrap()),
        "f64" => mk!(MatrixF64, f64, |s: &Sc| s.as_f64().unwrap()),
        "bool" => mk!(MatrixBool, bool, |s: &Sc| if let Sc::B(x) = s { *x } else { panic!() }),
        "string" => mk!(MatrixString, String, |s: &Sc| if let Sc::S(x) = s { x.clone() } else { panic!() }),
        "r64" => mk!(MatrixR64, R64, |s: &Sc| if let Sc::R(n, d) = s { R64::new(*n, *d) } else { panic!() }),
        "c64" => mk!(MatrixC64, C64, |s: &Sc| if let Sc::C(re, im) = s { C64::new(f64::from_bits(*re), f64::from_bits(*im)) } else { panic!() }),
        _ => panic!("to_value: unsupported matrix kind {}", k),
      }
    }
    _ => panic!("to_value: unsupported {:?}", c),
  }
}

pub fn scalar_value(k: &str, s: &Sc) -> Value {
  match (k, s) {
    ("u8", Sc::U(x)) => Value::U8(Ref::new(*x as u8)),
    ("u16", Sc::U(x)) => Value::U16(Ref::new(*x as u16)),
    ("u32", Sc::U(x)) => Value::U32(Ref::new(*x as u32)),
    ("u64", Sc::U(x)) => Value::U64(Ref::new(*x as u64)),
    ("u128", Sc::U(x)) => Value::U128(Ref::new(*x)),
    ("i8", Sc::I(x)) => Value::I8(Ref::new(*x as i8)),
    ("i16", Sc::I(x)) => Value::I16(Ref::new(*x as i16)),
    ("i32", Sc::I(x)) => Value::I32(Ref::new(*x as i32)),
    ("i64", Sc::I(x)) => Value::I64(Ref::new(*x as i64)),
    ("i128", Sc::I(x)) => Value::I128(Ref::new(*x)),
    ("f32", Sc::F32(b)) => Value::F32(Ref::new(f32::from_bits(*b))),
    ("f64", Sc::F64(b)) => Value::F64(Ref::new(f64::from_bits(*b))),
    ("bool", Sc::B(b)) => Value::Bool(Ref::new(*b)),
    ("string", Sc::S(s)) => Value::String(Ref::new(s.clone())),
    ("r64", Sc::R(n, d)) => Value::R64(Ref::new(R64::new(*n, *d))),
    ("c64", Sc::C(re, im)) => Value::C64(Ref::new(C64::new(f64::from_bits(*re), f64::from_bits(*im)))),
    _ => panic!("scalar_value: bad {} {:?}", k, s),
  }
}

/// Source-text literal for a canonical scalar or a row/column vector of scalars (None when no spelling exists).
pub fn lit(c: &CVal) -> Option<String> {
  match c {
    CVal::S(k, s) => match (k.as_str(), s) {
      ("f64", Sc::F64(b)) => { let x = f64::from_bits(*b); if !x.is_finite() { return None; } Some(if x < 0.0 { format!("-{:?}", -x) } else { format!("{:?}", x) }) }
      ("f32", Sc::F32(b)) => { let x = f32::from_bits(*b); if !x.is_finite() { return None; } Some(if x < 0.0 { format!("-{:?}<f32>", -x) } else { format!("{:?}<f32>", x) }) }
      (_, Sc::U(x)) => Some(format!("{}<{}>", x, k)),
      (_, Sc::I(x)) => Some(if *x < 0 { format!("-{}<{}>", x.unsigned_abs(), k) } else { format!("{}<{}>", x, k) }),
      ("r64", Sc::R(n, d)) => Some(if *n < 0 { format!("-{}/{}", n.unsigned_abs(), d) } else { format!("{}/{}", n, d) }),
      ("c64", Sc::C(r, i)) => { let (r, i) = (f64::from_bits(*r), f64::from_bits(*i)); if r < 0.0 || i < 0.0 || !r.is_finite() || !i.is_finite() { return None; } Some(format!("{:?}+{:?}i", r, i)) }
      ("bool", Sc::B(b)) => Some(format!("{}", b)),
      ("string", Sc::S(s)) => if s.contains('"') || s.contains('\\') { None } else { Some(format!("\"{}\"", s)) },
      _ => None,
    },
    CVal::M(_, r, cc, e) => {
      let parts: Option<Vec<String>> = e.iter().map(lit).collect();
      let parts = parts?;
      if *r == 1 { Some(format!("[{}]", parts.join(" "))) }
      else if *cc == 1 { Some(format!("[{}]", parts.join("; "))) }
      else {
        let mut rows = Vec::new();
        for i in 0..*r { rows.push((0..*cc).map(|j| parts[j * r + i].clone()).collect::<Vec<_>>().join(" ")); }
        Some(format!("[{}]", rows.join("; ")))
      }
    }
    _ => None,
  }
}
