//! Framework: cases, outcomes, PRNG, worker loop, driver, evidence, known findings.

use serde::{Deserialize, Serialize};
use serde_json::{json, Value as J};
use std::collections::{BTreeMap, BTreeSet};
use std::io::{BufRead, Write};
use std::time::{Duration, Instant};

// ---------------------------------------------------------------------------------------------
// PRNG: splitmix64, keyed by strings so that a case is reproducible from its id alone.

#[derive(Clone)]
pub struct Rng(pub u64);
impl Rng {
  pub fn keyed(seed: u64, key: &str) -> Rng {
    let mut h: u64 = 0xcbf29ce484222325 ^ seed.wrapping_mul(0x9E3779B97F4A7C15);
    for b in key.bytes() { h ^= b as u64; h = h.wrapping_mul(0x100000001b3); }
    let mut r = Rng(h);
    r.next(); r.next();
    r
  }
  pub fn next(&mut self) -> u64 {
    self.0 = self.0.wrapping_add(0x9E3779B97F4A7C15);
    let mut z = self.0;
    z = (z ^ (z >> 30)).wrapping_mul(0xBF58476D1CE4E5B9);
    z = (z ^ (z >> 27)).wrapping_mul(0x94D049BB133111EB);
    z ^ (z >> 31)
  }
  pub fn below(&mut self, n: u64) -> u64 { if n == 0 { 0 } else { self.next() % n } }
  pub fn range(&mut self, lo: i64, hi: i64) -> i64 { lo + self.below((hi - lo + 1) as u64) as i64 }
  pub fn chance(&mut self, num: u64, den: u64) -> bool { self.below(den) < num }
  pub fn pick<'a, T>(&mut self, v: &'a [T]) -> &'a T { &v[self.below(v.len() as u64) as usize] }
  pub fn shuffle<T>(&mut self, v: &mut Vec<T>) {
    for i in (1..v.len()).rev() { let j = self.below(i as u64 + 1) as usize; v.swap(i, j); }
  }
  pub fn unit(&mut self) -> f64 { (self.next() >> 11) as f64 / (1u64 << 53) as f64 }
}

// ---------------------------------------------------------------------------------------------

#[derive(Clone, Copy, Debug, PartialEq, Eq)]
pub enum Tier { Quick, Thorough }
impl Tier {
  pub fn name(&self) -> &'static str { match self { Tier::Quick => "quick", Tier::Thorough => "thorough" } }
  pub fn parse(s: &str) -> Tier { if s == "thorough" { Tier::Thorough } else { Tier::Quick } }
}

/// One generated case. `cell` is the sweep coordinate (value-free); `input` is everything needed to re-run it.
#[derive(Clone, Debug, Serialize, Deserialize)]
pub struct Case {
  pub id: String,
  pub cell: String,
  pub input: J,
}

#[derive(Clone, Debug, Serialize, Deserialize, PartialEq, Eq)]
pub enum Verdict { Held, Violated, Inconclusive }

#[derive(Clone, Debug, Serialize, Deserialize)]
pub struct Outcome {
  pub verdict: Verdict,
  /// value-free failure class (violated) or reason (inconclusive); empty when held
  pub class: String,
  /// human detail with concrete values
  pub detail: String,
  /// whether the case exercised the property non-trivially (by the property's rule)
  pub nontrivial: bool,
  /// monitor tags: arms observed, events seen …
  pub tags: Vec<String>,
  /// optional digest of the observation, compared across replica processes
  pub digest: Option<String>,
  /// numeric side observations (steps, allocations…) aggregated as max/sum in evidence
  pub nums: BTreeMap<String, f64>,
}
impl Outcome {
  pub fn held() -> Outcome { Outcome { verdict: Verdict::Held, class: String::new(), detail: String::new(), nontrivial: true, tags: vec![], digest: None, nums: BTreeMap::new() } }
  pub fn trivial() -> Outcome { let mut o = Outcome::held(); o.nontrivial = false; o }
  pub fn violated(class: &str, detail: String) -> Outcome { Outcome { verdict: Verdict::Violated, class: class.to_string(), detail, nontrivial: true, tags: vec![], digest: None, nums: BTreeMap::new() } }
  pub fn inconclusive(reason: &str, detail: String) -> Outcome { Outcome { verdict: Verdict::Inconclusive, class: reason.to_string(), detail, nontrivial: false, tags: vec![], digest: None, nums: BTreeMap::new() } }
  pub fn tag(mut self, t: impl Into<String>) -> Outcome { self.tags.push(t.into()); self }
  pub fn num(mut self, k: &str, v: f64) -> Outcome { self.nums.insert(k.to_string(), v); self }
}

pub trait Prop {
  fn id(&self) -> &'static str;
  fn level(&self) -> &'static str { "exploration" }
  fn rule(&self) -> String;
  fn assumptions(&self) -> Vec<String> { vec![] }
  fn gen(&self, tier: Tier, seed: u64) -> Vec<Case>;
  /// Runs in a worker process. Must not panic for reasons attributable to the implementation under test
  /// (catch them and report); a harness bug may panic and is reported as inconclusive by the worker loop.
  fn run(&self, case: &Case, flavour: &str) -> Outcome;
  /// Worker died (signal / abort) while running this case.
  fn on_abort(&self, _case: &Case, how: &str) -> Outcome { Outcome::violated(&format!("abort:{}", how), format!("worker process died: {}", how)) }
  /// floor on distinct non-trivial held-or-violated cases, below which the run is inconclusive
  fn floor(&self, tier: Tier) -> usize;
  fn flavours(&self, _tier: Tier) -> Vec<&'static str> { vec!["chk"] }
  /// number of replica processes whose digests must agree (C19)
  fn replicas(&self, _tier: Tier) -> usize { 1 }
  /// per-case watchdog
  fn watchdog(&self, tier: Tier) -> Duration { if tier == Tier::Quick { Duration::from_secs(60) } else { Duration::from_secs(300) } }
  /// extra evidence computed by the driver from all outcomes
  fn extra_evidence(&self, _tags: &BTreeMap<String, usize>) -> J { json!({}) }
  /// optional post-stage run by the driver (e.g. strace purity stage). Returns extra outcomes keyed by pseudo-case.
  fn post_stage(&self, _tier: Tier, _seed: u64, _self_exe: &str) -> Vec<(Case, Outcome)> { vec![] }
}

// ---------------------------------------------------------------------------------------------
// panic capture

use std::cell::RefCell;
thread_local! { pub static LAST_PANIC: RefCell<Option<String>> = RefCell::new(None); }

pub fn install_quiet_panic_hook() {
  std::panic::set_hook(Box::new(|info| {
    let loc = info.location().map(|l| format!("{}:{}", l.file(), l.line())).unwrap_or_default();
    let msg = if let Some(s) = info.payload().downcast_ref::<&str>() { s.to_string() } else if let Some(s) = info.payload().downcast_ref::<String>() { s.clone() } else { "non-string panic".to_string() };
    LAST_PANIC.with(|p| *p.borrow_mut() = Some(format!("{} @ {}", msg, loc)));
  }));
}

/// Run `f` under catch_unwind; Err(message @ location) on panic.
pub fn guarded<T>(f: impl FnOnce() -> T) -> Result<T, String> {
  LAST_PANIC.with(|p| *p.borrow_mut() = None);
  match std::panic::catch_unwind(std::panic::AssertUnwindSafe(f)) {
    Ok(v) => Ok(v),
    Err(_) => Err(LAST_PANIC.with(|p| p.borrow_mut().take()).unwrap_or_else(|| "panic".to_string())),
  }
}

// ---------------------------------------------------------------------------------------------
// worker

pub fn set_rlimit_as(bytes: u64) {
  unsafe {
    let lim = libc::rlimit { rlim_cur: bytes as libc::rlim_t, rlim_max: bytes as libc::rlim_t };
    libc::setrlimit(libc::RLIMIT_AS, &lim);
    // no core dumps
    let z = libc::rlimit { rlim_cur: 0, rlim_max: 0 };
    libc::setrlimit(libc::RLIMIT_CORE, &z);
  }
}

/// Worker loop: regenerates the case list, runs `idx % nshards == shard && idx >= start`.
pub fn worker_main(prop: &dyn Prop, tier: Tier, seed: u64, shard: usize, nshards: usize, start: usize, out_path: &str, flavour: &str, asan: bool, only_cell: Option<&str>, cases_file: Option<&str>) {
  if !asan { set_rlimit_as(8 << 30); }
  install_quiet_panic_hook();
  // the driver writes one case file per shard; a worker streams its own file and never holds more than one case
  // (without a file, e.g. when started by hand, it generates the cases itself)
  let cases: Box<dyn Iterator<Item = (usize, Case)>> = match cases_file {
    Some(path) => {
      let f = std::fs::File::open(path).expect("open case file");
      Box::new(std::io::BufReader::new(f).lines().flatten().filter_map(|l| { let v: J = serde_json::from_str(&l).ok()?; Some((v["i"].as_u64()? as usize, serde_json::from_value::<Case>(v["c"].clone()).ok()?)) }))
    }
    None => {
      let mut cases = prop.gen(tier, seed);
      if let Some(f) = only_cell { cases.retain(|c| glob(f, &c.cell)); }
      Box::new(cases.into_iter().enumerate().filter(move |(i, _)| i % nshards == shard))
    }
  };
  let f = std::fs::OpenOptions::new().create(true).append(true).open(out_path).expect("open worker log");
  let mut w = std::io::BufWriter::new(f);
  for (idx, case) in cases {
    let case = &case;
    if idx < start { continue; }
    writeln!(w, "{}", json!({"b": idx})).unwrap();
    w.flush().unwrap();
    let t0 = Instant::now();
    let out = match std::panic::catch_unwind(std::panic::AssertUnwindSafe(|| prop.run(case, flavour))) {
      Ok(o) => o,
      Err(_) => {
        let m = LAST_PANIC.with(|p| p.borrow_mut().take()).unwrap_or_default();
        Outcome::inconclusive("harness-panic", m)
      }
    };
    let ms = t0.elapsed().as_secs_f64() * 1000.0;
    writeln!(w, "{}", json!({"e": idx, "o": out, "ms": ms})).unwrap();
    w.flush().unwrap();
  }
  writeln!(w, "{}", json!({"done": true})).unwrap();
  w.flush().unwrap();
}

// ---------------------------------------------------------------------------------------------
// known findings

#[derive(Clone, Debug, Serialize, Deserialize)]
pub struct KnownFinding {
  pub id: String,
  pub property: String,
  pub status: String, // "open" | "fixed"
  pub cell: String,    // glob over the cell id
  pub failure: String, // exact failure class (glob allowed)
  pub flavour: String, // "chk" | "rel" | "any"
  pub what: String,
  #[serde(default)]
  pub pinned: Option<Case>,
  #[serde(default)]
  pub commit: Option<String>,
}

/// cell pattern: alternatives separated by " | "; within an alternative '*' matches any run of characters except ';'
pub fn glob(pat: &str, s: &str) -> bool {
  if pat.contains(" | ") { return pat.split(" | ").any(|p| glob1(p.trim(), s)); }
  glob1(pat, s)
}
fn glob1(pat: &str, s: &str) -> bool {
  let p: Vec<char> = pat.chars().collect();
  let t: Vec<char> = s.chars().collect();
  let (mut pi, mut ti, mut star, mut mark) = (0usize, 0usize, None::<usize>, 0usize);
  while ti < t.len() {
    if pi < p.len() && (p[pi] == t[ti]) && p[pi] != '*' { pi += 1; ti += 1; }
    else if pi < p.len() && p[pi] == '*' { star = Some(pi); mark = ti; pi += 1; }
    else if let Some(sp) = star { if t[mark] == ';' { return false; } pi = sp + 1; mark += 1; ti = mark; }
    else { return false; }
  }
  while pi < p.len() && p[pi] == '*' { pi += 1; }
  pi == p.len()
}

pub fn load_known(path: &str, prop: &str) -> Vec<KnownFinding> {
  let txt = match std::fs::read_to_string(path) { Ok(t) => t, Err(_) => return vec![] };
  let all: Vec<KnownFinding> = serde_json::from_str(&txt).expect("known_findings.json must parse");
  all.into_iter().filter(|k| k.property == prop).collect()
}

// ---------------------------------------------------------------------------------------------
// driver

pub struct DriverCfg {
  pub tier: Tier,
  pub seed: u64,
  pub jobs: usize,
  pub bins: BTreeMap<String, String>, // flavour -> binary path
  pub verif_dir: String,
  pub only_cell: Option<String>,
}

struct ShardState {
  child: std::process::Child,
  log: String,
  last_len: u64,
  last_change: Instant,
  start: usize,
}

fn read_log(path: &str) -> (BTreeMap<usize, (Outcome, f64)>, Option<usize>, bool) {
  // returns (ended outcomes, open begin idx, done flag)
  let mut ended = BTreeMap::new();
  let mut open: Option<usize> = None;
  let mut done = false;
  if let Ok(f) = std::fs::File::open(path) {
    for line in std::io::BufReader::new(f).lines().flatten() {
      let v: J = match serde_json::from_str(&line) { Ok(v) => v, Err(_) => continue };
      if let Some(b) = v.get("b").and_then(|x| x.as_u64()) { open = Some(b as usize); }
      else if let Some(e) = v.get("e").and_then(|x| x.as_u64()) {
        if let Ok(o) = serde_json::from_value::<Outcome>(v["o"].clone()) {
          ended.insert(e as usize, (o, v["ms"].as_f64().unwrap_or(0.0)));
        }
        if open == Some(e as usize) { open = None; }
      } else if v.get("done").is_some() { done = true; }
    }
  }
  (ended, open, done)
}

/// Runs all shards of one (flavour, replica) and returns outcome per case index.
fn run_flavour(prop: &dyn Prop, cfg: &DriverCfg, cases: &[Case], flavour: &str, replica: usize, work: &str) -> BTreeMap<usize, Outcome> {
  let bin = cfg.bins.get(flavour).unwrap_or_else(|| panic!("no binary for flavour {}", flavour)).clone();
  let n = cfg.jobs.max(1).min(cases.len().max(1));
  let wd = prop.watchdog(cfg.tier);
  let mut results: BTreeMap<usize, Outcome> = BTreeMap::new();
  // the sanitizer flavour is about ten times slower: it runs a strided sample of the cases (at most VERIF_ASAN_CAP, default
  // 12000; the stride's phase rotates with the seed), every cell family still being visited because neighbouring cases differ in
  // the fastest-changing dimension only
  let cap: usize = std::env::var("VERIF_ASAN_CAP").ok().and_then(|v| v.parse().ok()).unwrap_or(12000);
  let stride = if flavour == "asan" && cases.len() > cap { (cases.len() + cap - 1) / cap } else { 1 };
  let phase = (cfg.seed as usize) % stride;
  let sel = move |i: usize| -> bool { stride == 1 || (i / n) % stride == phase };
  let case_prefix = if stride == 1 { "cases".to_string() } else { format!("cases-{}", flavour) };
  let spawn = |shard: usize, start: usize, log: &str| -> std::process::Child {
    let mut c = std::process::Command::new(&bin);
    c.args(["worker", prop.id(), "--tier", cfg.tier.name(), "--seed", &cfg.seed.to_string(), "--shard", &shard.to_string(), "--nshards", &n.to_string(), "--start", &start.to_string(), "--out", log, "--flavour", flavour]);
    c.args(["--cases", &format!("{}/{}-{}.jsonl", work, case_prefix, shard)]);
    c.stdout(std::process::Stdio::null()).stderr(std::process::Stdio::piped()).stdin(std::process::Stdio::null());
    if flavour == "asan" { c.env("ASAN_OPTIONS", format!("detect_leaks=0:abort_on_error=1:halt_on_error=1:log_path={}/asan.{}", work, shard)); }
    c.spawn().expect("spawn worker")
  };
  // one case file per shard (written once per run, shared by all flavours and replicas)
  if !std::path::Path::new(&format!("{}/cases-0.jsonl", work)).exists() {
    let mut files: Vec<std::io::BufWriter<std::fs::File>> = (0..n).map(|s| std::io::BufWriter::new(std::fs::File::create(format!("{}/cases-{}.jsonl", work, s)).expect("create case file"))).collect();
    for (i, c) in cases.iter().enumerate() { writeln!(files[i % n], "{}", json!({"i": i, "c": c})).unwrap(); }
    for f in files.iter_mut() { f.flush().unwrap(); }
  }
  if stride > 1 && !std::path::Path::new(&format!("{}/{}-0.jsonl", work, case_prefix)).exists() {
    let mut files: Vec<std::io::BufWriter<std::fs::File>> = (0..n).map(|s| std::io::BufWriter::new(std::fs::File::create(format!("{}/{}-{}.jsonl", work, case_prefix, s)).expect("create case file"))).collect();
    for (i, c) in cases.iter().enumerate() { if sel(i) { writeln!(files[i % n], "{}", json!({"i": i, "c": c})).unwrap(); } }
    for f in files.iter_mut() { f.flush().unwrap(); }
    println!("note: flavour {} runs every {}th case of each shard ({} of {} cases)", flavour, stride, (0..cases.len()).filter(|i| sel(*i)).count(), cases.len());
  }
  let mut shards: Vec<Option<ShardState>> = Vec::new();
  for s in 0..n {
    let log = format!("{}/{}-{}-{}.jsonl", work, flavour, replica, s);
    let _ = std::fs::remove_file(&log);
    let child = spawn(s, 0, &log);
    shards.push(Some(ShardState { child, log, last_len: 0, last_change: Instant::now(), start: 0 }));
  }
  loop {
    let mut alive = 0;
    for s in 0..n {
      let Some(st) = shards[s].as_mut() else { continue };
      alive += 1;
      let len = std::fs::metadata(&st.log).map(|m| m.len()).unwrap_or(0);
      if len != st.last_len { st.last_len = len; st.last_change = Instant::now(); }
      let status = st.child.try_wait().ok().flatten();
      let timed_out = status.is_none() && st.last_change.elapsed() > wd;
      if status.is_none() && !timed_out { continue; }
      if timed_out { let _ = st.child.kill(); let _ = st.child.wait(); }
      let mut stderr_txt = String::new();
      if let Some(mut e) = st.child.stderr.take() { use std::io::Read; let mut b = Vec::new(); let _ = e.read_to_end(&mut b); stderr_txt = String::from_utf8_lossy(&b).chars().rev().take(1500).collect::<Vec<_>>().into_iter().rev().collect(); }
      // the sanitizer writes its report to log_path.<pid>, not to stderr: append the newest report of this shard
      if flavour == "asan" && !timed_out {
        if let Ok(rd) = std::fs::read_dir(work) {
          let prefix = format!("asan.{}.", s);
          let mut logs: Vec<std::path::PathBuf> = rd.flatten().map(|e| e.path()).filter(|p| p.file_name().and_then(|n| n.to_str()).map(|n| n.starts_with(&prefix)).unwrap_or(false)).collect();
          logs.sort_by_key(|p| std::fs::metadata(p).and_then(|m| m.modified()).ok());
          if let Some(last) = logs.last() { if let Ok(t) = std::fs::read_to_string(last) { stderr_txt.push('\n'); stderr_txt.push_str(&t.lines().filter(|l| l.contains("ERROR: AddressSanitizer") || l.contains("SUMMARY") || l.trim_start().starts_with("#0 ") || l.trim_start().starts_with("#1 ")).take(6).collect::<Vec<_>>().join("\n")); let _ = std::fs::remove_file(last); } }
        }
      }
      let (ended, open, done) = read_log(&st.log);
      for (k, (o, _)) in ended { results.insert(k, o); }
      if done { shards[s] = None; continue; }
      // died or hung in `open`
      let how = if timed_out { "watchdog".to_string() } else {
        use std::os::unix::process::ExitStatusExt;
        let es = status.unwrap();
        if let Some(sig) = es.signal() { format!("signal{}", sig) } else { format!("exit{}", es.code().unwrap_or(-1)) }
      };
      let next_start = match open {
        Some(idx) => {
          let o = if timed_out { Outcome::inconclusive("watchdog", format!("no progress for {:?}", wd)) }
                  else {
                    let mut o = prop.on_abort(&cases[idx], &how);
                    let tail = classify_stderr(&stderr_txt);
                    if !tail.is_empty() { o.detail = format!("{} [{}]", o.detail, tail); if o.verdict == Verdict::Violated && o.class.starts_with("abort:") { o.class = format!("abort:{}", abort_kind(&stderr_txt, &how)); } }
                    o
                  };
          results.insert(idx, o);
          idx + 1
        }
        None => {
          // died between cases (e.g. at startup): harness trouble, mark the rest of this shard inconclusive
          for (i, _) in cases.iter().enumerate() { if i % n == s && sel(i) && i >= st.start && !results.contains_key(&i) { results.insert(i, Outcome::inconclusive("worker-lost", format!("{} {}", how, stderr_txt))); } }
          shards[s] = None; continue;
        }
      };
      let log = st.log.clone();
      let child = spawn(s, next_start, &log);
      shards[s] = Some(ShardState { child, log, last_len: len, last_change: Instant::now(), start: next_start });
    }
    if alive == 0 { break; }
    std::thread::sleep(Duration::from_millis(20));
  }
  results
}

fn classify_stderr(s: &str) -> String {
  let mut out = Vec::new();
  for l in s.lines() {
    if l.contains("overflowed its stack") || l.contains("AddressSanitizer") || l.contains("memory allocation of") || l.contains("SUMMARY") || l.contains("panicked at") || l.contains("VERIF-ALLOC") { out.push(l.trim().to_string()); }
  }
  out.join(" | ")
}
fn abort_kind(stderr: &str, how: &str) -> String {
  if stderr.contains("overflowed its stack") { "stack-overflow".into() }
  else if stderr.contains("VERIF-ALLOC") { "alloc-bound".into() }
  else if stderr.contains("memory allocation of") { "alloc-failure".into() }
  else if stderr.contains("AddressSanitizer") {
    let kind = stderr.lines().find(|l| l.contains("ERROR: AddressSanitizer")).map(|l| l.split("AddressSanitizer:").nth(1).unwrap_or("").trim().split_whitespace().next().unwrap_or("").to_string()).unwrap_or_default();
    // the function the report is attributed to (SUMMARY ... in <path>), generic arguments stripped
    let site = stderr.lines().find(|l| l.contains("SUMMARY: AddressSanitizer")).and_then(|l| l.rsplit(" in ").next()).map(|f| {
      let mut depth = 0; let mut out = String::new();
      for ch in f.chars() { match ch { '<' => depth += 1, '>' => { if depth > 0 { depth -= 1; } } c if depth == 0 => out.push(c), _ => {} } }
      let segs: Vec<&str> = out.split("::").filter(|x| !x.is_empty()).collect();
      segs.iter().rev().take(2).rev().cloned().collect::<Vec<_>>().join("::")
    }).unwrap_or_default();
    if site.is_empty() { format!("asan-{}", kind) } else { format!("asan-{}:{}", kind, site.trim()) }
  }
  else { how.to_string() }
}

pub struct Report { pub exit: i32 }

pub fn drive(prop: &dyn Prop, cfg: &DriverCfg) -> Report {
  let t0 = Instant::now();
  let pid = prop.id();
  let work = format!("{}/work/{}-{}", cfg.verif_dir, pid, std::process::id());
  std::fs::create_dir_all(&work).unwrap();
  let mut cases = prop.gen(cfg.tier, cfg.seed);
  if let Some(f) = &cfg.only_cell { cases.retain(|c| glob(f, &c.cell)); }
  let known = load_known(&format!("{}/known_findings.json", cfg.verif_dir), pid);
  let replay_dir = format!("{}/evidence/replay/{}", cfg.verif_dir, pid);
  let _ = std::fs::remove_dir_all(&replay_dir);
  std::fs::create_dir_all(&replay_dir).unwrap();

  // pinned reproducers of open known findings
  let mut kf_lines: Vec<String> = Vec::new();
  let mut kf_matched: BTreeMap<String, usize> = BTreeMap::new();

  let flavours: Vec<&str> = prop.flavours(cfg.tier).into_iter().filter(|f| cfg.bins.contains_key(*f)).collect();
  let mut per_flavour: Vec<(String, usize, BTreeMap<usize, Outcome>)> = Vec::new();
  for fl in &flavours {
    let reps = if *fl == "chk" { prop.replicas(cfg.tier) } else { 1 };
    for r in 0..reps {
      let res = run_flavour(prop, cfg, &cases, fl, r, &work);
      per_flavour.push((fl.to_string(), r, res));
    }
  }
  // replica digest comparison
  let mut extra_cases: Vec<(Case, Outcome, String)> = Vec::new();
  {
    let chk: Vec<&(String, usize, BTreeMap<usize, Outcome>)> = per_flavour.iter().filter(|x| x.0 == "chk").collect();
    if chk.len() > 1 {
      for (i, c) in cases.iter().enumerate() {
        let mut ds: BTreeSet<String> = BTreeSet::new();
        for rep in &chk { if let Some(o) = rep.2.get(&i) { if let Some(d) = &o.digest { ds.insert(d.clone()); } } }
        if ds.len() > 1 {
          extra_cases.push((c.clone(), Outcome::violated("replica-digest-mismatch", format!("digests across {} processes: {:?}", chk.len(), ds)), "chk".into()));
        }
      }
    }
  }
  // (a run restricted to some cells with --cell is a debugging aid: the post stages are skipped unless the filter names a stage)
  if cfg.only_cell.as_deref().map(|f| f.starts_with("stage=")).unwrap_or(true) {
    for (c, o) in prop.post_stage(cfg.tier, cfg.seed, cfg.bins.get("chk").map(|s| s.as_str()).unwrap_or("")) { extra_cases.push((c, o, "chk".into())); }
  }

  // aggregate
  let mut evals = 0usize;
  let (mut held, mut violated, mut inconcl) = (0usize, 0usize, 0usize);
  let mut nontrivial_ids: BTreeSet<String> = BTreeSet::new();
  let mut cells: BTreeSet<String> = BTreeSet::new();
  let mut tags: BTreeMap<String, usize> = BTreeMap::new();
  let mut nums_max: BTreeMap<String, f64> = BTreeMap::new();
  let mut nums_sum: BTreeMap<String, f64> = BTreeMap::new();
  let mut inconcl_reasons: BTreeMap<String, usize> = BTreeMap::new();
  let mut inconcl_samples: Vec<J> = Vec::new();
  let mut unknown_violations: Vec<String> = Vec::new();
  let mut viol_classes: BTreeMap<String, usize> = BTreeMap::new();
  let mut samples: Vec<J> = Vec::new();
  let mut witness_n = 0usize;
  let mut all: Vec<(Case, Outcome, String)> = Vec::new();
  for (fl, _r, res) in &per_flavour {
    for (i, o) in res { all.push((cases[*i].clone(), o.clone(), fl.clone())); }
    // cases never reported
    for (i, c) in cases.iter().enumerate() { if !res.contains_key(&i) { all.push((c.clone(), Outcome::inconclusive("not-run", String::new()), fl.clone())); } }
  }
  all.extend(extra_cases.into_iter());
  for (c, o, fl) in &all {
    evals += 1;
    cells.insert(c.cell.clone());
    for t in &o.tags { *tags.entry(t.clone()).or_insert(0) += 1; }
    for (k, v) in &o.nums { let e = nums_max.entry(k.clone()).or_insert(f64::MIN); if *v > *e { *e = *v; } *nums_sum.entry(k.clone()).or_insert(0.0) += *v; }
    match o.verdict {
      Verdict::Held => { held += 1; if o.nontrivial { nontrivial_ids.insert(c.id.clone()); } }
      Verdict::Inconclusive => { inconcl += 1; *inconcl_reasons.entry(o.class.clone()).or_insert(0) += 1; if inconcl_samples.len() < 12 { inconcl_samples.push(json!({"id": c.id, "reason": o.class, "detail": o.detail.chars().take(300).collect::<String>(), "input": c.input})); } }
      Verdict::Violated => {
        violated += 1;
        nontrivial_ids.insert(c.id.clone());
        *viol_classes.entry(format!("{} :: {}", cell_family(&c.cell), o.class)).or_insert(0) += 1;
        let k = known.iter().find(|k| k.status == "open" && glob(&k.cell, &c.cell) && glob(&k.failure, &o.class) && (k.flavour == "any" || k.flavour == *fl));
        match k {
          Some(k) => { *kf_matched.entry(k.id.clone()).or_insert(0) += 1; }
          None => {
            witness_n += 1;
            if witness_n <= 3000 {
              let path = format!("{}/w{:04}.json", replay_dir, witness_n);
              let w = json!({"property": pid, "flavour": fl, "tier": cfg.tier.name(), "seed": cfg.seed, "case": c, "class": o.class, "detail": o.detail});
              std::fs::write(&path, serde_json::to_string_pretty(&w).unwrap()).unwrap();
              unknown_violations.push(path);
            }
          }
        }
      }
    }
  }
  // samples: a few held non-trivial, spaced out
  {
    let pool: Vec<&(Case, Outcome, String)> = all.iter().filter(|x| x.1.verdict == Verdict::Held && x.1.nontrivial).collect();
    let step = (pool.len() / 5).max(1);
    for x in pool.iter().step_by(step).take(6) { samples.push(json!({"id": x.0.id, "cell": x.0.cell, "input": x.0.input, "verdict": "held", "tags": x.1.tags})); }
    for x in all.iter().filter(|x| x.1.verdict == Verdict::Violated).take(3) { samples.push(json!({"id": x.0.id, "cell": x.0.cell, "input": x.0.input, "verdict": "violated", "class": x.1.class, "detail": x.1.detail})); }
  }

  // pinned reproducers
  for k in known.iter().filter(|k| k.status == "open") {
    let mut still = None;
    if let Some(pc) = &k.pinned {
      let fl = if k.flavour == "any" { "chk" } else { k.flavour.as_str() };
      if let Some(bin) = cfg.bins.get(fl) {
        let tmp = format!("{}/pinned-{}.json", work, k.id);
        std::fs::write(&tmp, serde_json::to_string(&json!({"property": pid, "flavour": fl, "case": pc})).unwrap()).unwrap();
        let out = std::process::Command::new(bin).args(["replay", &tmp, "--json"]).output();
        if let Ok(out) = out {
          let txt = String::from_utf8_lossy(&out.stdout).to_string();
          if let Some(l) = txt.lines().rev().find(|l| l.starts_with('{')) {
            if let Ok(v) = serde_json::from_str::<J>(l) {
              let verdict = v["verdict"].as_str().unwrap_or("");
              let class = v["class"].as_str().unwrap_or("");
              still = Some(verdict == "Violated" && glob(&k.failure, class));
            }
          } else if !out.status.success() {
            // pinned case killed the replay process: counts as still failing iff the class is an abort class
            still = Some(k.failure.starts_with("abort"));
          }
        }
      }
    }
    let n = kf_matched.get(&k.id).cloned().unwrap_or(0);
    match still {
      Some(false) if n == 0 => kf_lines.push(format!("KNOWN-FINDING-STALE: property={} {} ({}) pinned reproducer no longer fails", pid, k.id, k.what)),
      _ => kf_lines.push(format!("KNOWN-FINDING: property={} {} {} [matched {} case(s) this run{}]", pid, k.id, k.what, n, match still { Some(true) => ", pinned reproducer still fails", Some(false) => ", pinned reproducer passes", None => "" })),
    }
  }

  let distinct_nontrivial = nontrivial_ids.len();
  let floor = if cfg.only_cell.is_some() { 0 } else { prop.floor(cfg.tier) };
  let wall = t0.elapsed().as_secs_f64();
  let mut coverage = json!({
    "evaluations": evals,
    "distinct_nontrivial": distinct_nontrivial,
    "rule": prop.rule(),
    "samples": samples,
    "cells_visited": cells.len(),
    "verdicts": {"held": held, "violated": violated, "inconclusive": inconcl},
    "inconclusive_reasons": inconcl_reasons,
    "inconclusive_samples": inconcl_samples,
    "violation_classes": viol_classes,
    "known_findings_matched": kf_matched,
    "unlisted_violations": unknown_violations.len(),
    "flavours": flavours,
    "replicas": prop.replicas(cfg.tier),
    "monitor_tags_observed": tags.len(),
    "monitor_tags": tags.iter().take(400).map(|(k, v)| (k.clone(), *v)).collect::<BTreeMap<String, usize>>(),
    "observed_max": nums_max,
    "observed_sum": nums_sum,
    "floor": floor,
  });
  if let J::Object(m) = prop.extra_evidence(&tags) { for (k, v) in m { coverage[k] = v; } }
  let ev = json!({
    "property_id": pid,
    "tier": cfg.tier.name(),
    "seed": cfg.seed,
    "level": prop.level(),
    "coverage": coverage,
    "assumptions": prop.assumptions(),
    "wall_s": wall,
    "violations": unknown_violations.len(),
  });
  if cfg.only_cell.is_none() {
    std::fs::create_dir_all(format!("{}/evidence", cfg.verif_dir)).unwrap();
    std::fs::write(format!("{}/evidence/{}.json", cfg.verif_dir, pid), serde_json::to_string_pretty(&ev).unwrap()).unwrap();
  }
  let _ = std::fs::remove_dir_all(&work);

  println!("property={} tier={} seed={} evaluations={} distinct_nontrivial={} held={} violated={} (listed {}) inconclusive={} cells={} tags={} wall={:.1}s",
    pid, cfg.tier.name(), cfg.seed, evals, distinct_nontrivial, held, violated, violated - unknown_violations.len().min(violated), inconcl, cells.len(), tags.len(), wall);
  for (k, v) in &viol_classes { println!("  class {} x{}", k, v); }
  if let Ok(pre) = std::env::var("VERIF_SHOW_TAGS") { for (k, v) in tags.iter().filter(|(k, _)| pre.split(',').any(|p| k.starts_with(p))) { println!("  tag {} x{}", k, v); } }
  for (k, v) in &inconcl_reasons { println!("  inconclusive {} x{}", k, v); }
  for l in &kf_lines { println!("{}", l); }
  if !unknown_violations.is_empty() {
    for p in unknown_violations.iter().take(20) { println!("VIOLATION property={} replay={}", pid, p); }
    if witness_n > 20 { println!("... {} unlisted violations in total", witness_n); }
    return Report { exit: 1 };
  }
  if distinct_nontrivial < floor {
    println!("INCONCLUSIVE property={} observed={} floor={}", pid, distinct_nontrivial, floor);
    return Report { exit: 2 };
  }
  Report { exit: 0 }
}

/// family of a cell id = the cell with digits after '=' kept (cells are already value-free)
fn cell_family(cell: &str) -> String { cell.to_string() }

pub fn replay(prop: &dyn Prop, path: &str, json_out: bool) -> i32 {
  install_quiet_panic_hook();
  let txt = std::fs::read_to_string(path).expect("read witness");
  let v: J = serde_json::from_str(&txt).expect("witness json");
  let case: Case = serde_json::from_value(v["case"].clone()).expect("case");
  let fl = v["flavour"].as_str().unwrap_or("chk").to_string();
  let o = prop.run(&case, &fl);
  if json_out {
    println!("{}", json!({"verdict": format!("{:?}", o.verdict), "class": o.class, "detail": o.detail}));
  } else {
    println!("case {} cell {}\ninput {}\nverdict {:?} class {}\n{}", case.id, case.cell, serde_json::to_string_pretty(&case.input).unwrap(), o.verdict, o.class, o.detail);
    if o.verdict == Verdict::Violated { println!("VIOLATION property={} replay={}", prop.id(), path); }
  }
  if o.verdict == Verdict::Violated { 1 } else { 0 }
}

// ---------------------------------------------------------------------------------------------
// Miri stage: the kernel-level monitor of /verif/miri (crate `mk`) run under `cargo +nightly miri run`
// in parallel shards. Each kernel case is judged by mk's value oracles; a shard that dies inside a case
// (between its `B` and `E` lines) with a Miri report on stderr is an undefined-behaviour observation for that case.

fn miri_cmd(verif: &str) -> std::process::Command {
  // VERIF_MIRI_DIR: a copy of the crate bound to another tree (evaluation of seeded changes in scratch worktrees)
  let dir = std::env::var("VERIF_MIRI_DIR").unwrap_or_else(|_| format!("{}/miri", verif));
  let tgt = if std::env::var("VERIF_MIRI_DIR").is_ok() { format!("{}/target", dir) } else { format!("{}/target/miri", verif) };
  let mut c = std::process::Command::new("cargo");
  c.args(["+nightly", "miri", "run", "--quiet", "--manifest-path", &format!("{}/Cargo.toml", dir), "--"]);
  c.current_dir(&dir);
  c.env("CARGO_TARGET_DIR", tgt).env("CARGO_NET_OFFLINE", "true").env("MIRIFLAGS", "-Zmiri-ignore-leaks -Zmiri-deterministic-floats");
  c.env_remove("RUSTFLAGS").env_remove("RUSTC_BOOTSTRAP").env_remove("CARGO_ENCODED_RUSTFLAGS");
  c
}

/// value-free class of a Miri report
fn miri_class(stderr: &str) -> (Verdict, String) {
  if let Some(p) = stderr.find("Undefined Behavior:") {
    let line = stderr[p + "Undefined Behavior:".len()..].lines().next().unwrap_or("").trim();
    let mut norm = String::new();
    let mut prev_hash = false;
    for ch in line.chars() { if ch.is_ascii_digit() || (prev_hash && ch.is_ascii_hexdigit()) { if !prev_hash { norm.push('#'); prev_hash = true; } } else { prev_hash = false; norm.push(ch); } }
    let site = stderr[p..].lines().find(|l| l.trim_start().starts_with("-->")).map(|l| l.trim().trim_start_matches("-->").trim().rsplit('/').next().unwrap_or("").split(':').next().unwrap_or("").to_string()).unwrap_or_default();
    return (Verdict::Violated, format!("miri-ub:{}:{}", norm.chars().take(70).collect::<String>().trim(), site));
  }
  if stderr.contains("unsupported operation") { return (Verdict::Inconclusive, "miri-unsupported-operation".into()); }
  if stderr.contains("the evaluated program aborted") || stderr.contains("abnormal termination") { return (Verdict::Violated, "abort:miri:kernel-aborted".into()); }
  if stderr.contains("stack overflow") || stderr.contains("reached the configured maximum number of stack frames") { return (Verdict::Violated, "abort:miri:stack-overflow".into()); }
  (Verdict::Inconclusive, "miri-shard-died".into())
}

fn miri_outcome(line_json: &str, prop: &str, tier: Tier, seed: u64) -> Option<(Case, Outcome)> {
  let v: J = serde_json::from_str(line_json).ok()?;
  let id = v["id"].as_str()?.to_string();
  let case = Case { id: format!("miri;{}", id), cell: v["cell"].as_str()?.to_string(), input: json!({"stage": "miri", "prop": prop, "tier": tier.name(), "seed": seed, "kernel_case": id}) };
  let mut o = match v["verdict"].as_str()? { "violated" => Outcome::violated(v["class"].as_str().unwrap_or(""), v["detail"].as_str().unwrap_or("").to_string()), _ => Outcome::held() };
  o.nontrivial = v["nontrivial"].as_bool().unwrap_or(true);
  o.detail = v["detail"].as_str().unwrap_or("").to_string();
  for t in v["tags"].as_array().cloned().unwrap_or_default() { if let Some(t) = t.as_str() { o.tags.push(format!("miri:{}", t)); } }
  o.tags.push("miri:case-ran-under-miri".into());
  Some((case, o))
}

pub fn miri_stage(prop: &str, tier: Tier, seed: u64, stride: usize) -> Vec<(Case, Outcome)> {
  let verif = crate::corpus::verif_dir();
  let stage_case = |what: &str| Case { id: format!("miri;{}", what), cell: "stage=miri;fam=setup".into(), input: json!({"stage": "miri", "prop": prop, "tier": tier.name(), "seed": seed}) };
  if std::env::var("VERIF_NO_MIRI").is_ok() { return vec![(stage_case("disabled"), Outcome::inconclusive("miri-disabled-by-env", String::new()))]; }
  let _ = std::fs::copy("/repo/Cargo.lock", format!("{}/miri/Cargo.lock.repo", verif));
  // 1. build (serial) and smoke run
  let t0 = Instant::now();
  let b = miri_cmd(&verif).arg("noop").output();
  match &b { Ok(o) if o.status.success() && String::from_utf8_lossy(&o.stdout).contains("noop") => {}
    Ok(o) => return vec![(stage_case("build"), Outcome::inconclusive("miri-build-failed", String::from_utf8_lossy(&o.stderr).chars().rev().take(1500).collect::<String>().chars().rev().collect()))],
    Err(e) => return vec![(stage_case("build"), Outcome::inconclusive("miri-unavailable", format!("{}", e)))] }
  let build_s = t0.elapsed().as_secs_f64();
  let count: usize = miri_cmd(&verif).args([prop, tier.name(), &seed.to_string(), "0", "0", "0", &stride.to_string()]).output().ok().and_then(|o| String::from_utf8_lossy(&o.stdout).lines().find_map(|l| l.strip_prefix("COUNT ").and_then(|n| n.trim().parse().ok()))).unwrap_or(0);
  if count == 0 { return vec![(stage_case("count"), Outcome::inconclusive("miri-no-cases", String::new()))]; }
  let nsh = std::thread::available_parallelism().map(|n| n.get()).unwrap_or(8).min(count).max(1);
  let deadline = Instant::now() + if tier == Tier::Quick { Duration::from_secs(1200) } else { Duration::from_secs(3 * 3600) };
  let mut handles = Vec::new();
  for shard in 0..nsh {
    let (verif, prop) = (verif.clone(), prop.to_string());
    handles.push(std::thread::spawn(move || {
      let mut res: Vec<(Case, Outcome)> = Vec::new();
      let mut start = 0usize;
      let mut restarts = 0;
      loop {
        if Instant::now() > deadline { res.push((Case { id: format!("miri;shard{}-timeout", shard), cell: "stage=miri;fam=setup".into(), input: json!({}) }, Outcome::inconclusive("miri-stage-timeout", String::new()))); break; }
        let out = miri_cmd(&verif).args([&prop, tier.name(), &seed.to_string(), &shard.to_string(), &nsh.to_string(), &start.to_string(), &stride.to_string()]).output();
        let out = match out { Ok(o) => o, Err(e) => { res.push((Case { id: format!("miri;shard{}", shard), cell: "stage=miri;fam=setup".into(), input: json!({}) }, Outcome::inconclusive("miri-unavailable", format!("{}", e)))); break; } };
        let so = String::from_utf8_lossy(&out.stdout).to_string();
        let se = String::from_utf8_lossy(&out.stderr).to_string();
        let mut open: Option<(usize, String)> = None;
        let mut done = false;
        for l in so.lines() {
          if let Some(rest) = l.strip_prefix("B ") { let mut it = rest.splitn(2, ' '); let i = it.next().and_then(|x| x.parse().ok()).unwrap_or(0); open = Some((i, it.next().unwrap_or("").to_string())); }
          else if let Some(rest) = l.strip_prefix("E ") { let mut it = rest.splitn(2, ' '); let _ = it.next(); if let Some(co) = miri_outcome(it.next().unwrap_or(""), &prop, tier, seed) { res.push(co); } open = None; }
          else if l.starts_with("DONE") { done = true; }
        }
        if done && open.is_none() { break; }
        match open {
          Some((i, id)) => {
            let (v, class) = miri_class(&se);
            let cell = format!("stage=miri;fam={};fn={}", id.split(';').next().unwrap_or(""), id.split(';').nth(1).unwrap_or(""));
            let case = Case { id: format!("miri;{}", id), cell, input: json!({"stage": "miri", "prop": prop, "tier": tier.name(), "seed": seed, "kernel_case": id}) };
            let detail: String = se.lines().filter(|l| !l.trim().is_empty()).take(40).collect::<Vec<_>>().join("\n").chars().take(2500).collect();
            res.push((case, if v == Verdict::Violated { Outcome::violated(&class, detail) } else { Outcome::inconclusive(&class, detail) }));
            start = i + 1; restarts += 1;
            if restarts > 200 { break; }
          }
          None => { res.push((Case { id: format!("miri;shard{}", shard), cell: "stage=miri;fam=setup".into(), input: json!({}) }, Outcome::inconclusive("miri-shard-died", se.chars().take(800).collect()))); break; }
        }
      }
      res
    }));
  }
  let mut all = Vec::new();
  for h in handles { if let Ok(r) = h.join() { all.extend(r); } }
  let ran = all.iter().filter(|(_, o)| o.tags.iter().any(|t| t == "miri:case-ran-under-miri")).count();
  all.push((stage_case("summary"), if ran == 0 { Outcome::inconclusive("miri-no-case-ran", String::new()) } else { Outcome::trivial().tag("miri:stage-completed").num("miri_cases_ran", ran as f64).num("miri_cases_planned", count as f64).num("miri_build_s", build_s).num("miri_shards", nsh as f64) }));
  all
}

/// re-run one kernel case of the Miri stage (replay of a witness)
pub fn miri_run_one(case: &Case) -> Outcome {
  let verif = crate::corpus::verif_dir();
  let (prop, tier, seed, id) = (case.input["prop"].as_str().unwrap_or("all"), case.input["tier"].as_str().unwrap_or("quick"), case.input["seed"].as_u64().unwrap_or(0), case.input["kernel_case"].as_str().unwrap_or(""));
  let out = match miri_cmd(&verif).args(["one", prop, tier, &seed.to_string(), id]).output() { Ok(o) => o, Err(e) => return Outcome::inconclusive("miri-unavailable", format!("{}", e)) };
  let so = String::from_utf8_lossy(&out.stdout).to_string();
  for l in so.lines() { if let Some(rest) = l.strip_prefix("E ") { if let Some((_, o)) = miri_outcome(rest.splitn(2, ' ').nth(1).unwrap_or(""), prop, Tier::parse(tier), seed) { return o; } } }
  if so.contains("B ") { let se = String::from_utf8_lossy(&out.stderr).to_string(); let (v, class) = miri_class(&se); let d: String = se.chars().take(2500).collect(); return if v == Verdict::Violated { Outcome::violated(&class, d) } else { Outcome::inconclusive(&class, d) }; }
  Outcome::inconclusive("miri-case-not-found", so.chars().take(300).collect())
}
