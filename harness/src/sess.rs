//! Client-boundary wrapper around the public mech API.

use crate::canon::*;
use crate::fw::guarded;
use mech_core::*;
use mech_interpreter::*;
use mech_syntax::parser;
use std::collections::BTreeMap;

#[derive(Clone, Debug)]
pub enum Ev {
  /// value returned
  Ok(CVal),
  /// MechError returned (kind name, message)
  Err(String, String),
  /// parse error (not attributable to evaluation)
  ParseErr(String),
  /// panic escaped the API
  Panic(String),
}
impl Ev {
  pub fn is_ok(&self) -> bool { matches!(self, Ev::Ok(_)) }
  pub fn is_err(&self) -> bool { matches!(self, Ev::Err(..)) }
  pub fn ok(&self) -> Option<&CVal> { if let Ev::Ok(v) = self { Some(v) } else { None } }
  pub fn show(&self) -> String {
    match self {
      Ev::Ok(v) => format!("Ok {}", v.show()),
      Ev::Err(k, m) => format!("Err {}: {}", k, m.chars().take(160).collect::<String>()),
      Ev::ParseErr(m) => format!("ParseErr {}", m.chars().take(120).collect::<String>()),
      Ev::Panic(m) => format!("PANIC {}", m.chars().take(200).collect::<String>()),
    }
  }
}

pub struct Sess {
  pub intrp: Interpreter,
}

pub type Snapshot = BTreeMap<String, CVal>;

impl Sess {
  pub fn new() -> Sess { Sess { intrp: Interpreter::new(0) } }

  pub fn bind(&mut self, name: &str, v: &CVal, mutable: bool) {
    let val = to_value(v);
    self.bind_value(name, val, mutable);
  }
  pub fn bind_value(&mut self, name: &str, val: Value, mutable: bool) {
    let id = hash_str(name);
    let st = self.intrp.state.borrow();
    st.save_symbol(id, name.to_string(), val, mutable);
    st.dictionary.borrow_mut().insert(id, name.to_string());
  }

  /// parse + interpret one source text.
  pub fn eval(&mut self, src: &str) -> Ev {
    let tree = match guarded(|| parser::parse(src)) {
      Ok(Ok(t)) => t,
      Ok(Err(e)) => return Ev::ParseErr(e.kind_name()),
      Err(p) => return Ev::Panic(format!("parse: {}", p)),
    };
    self.eval_tree(&tree)
  }

  pub fn eval_tree(&mut self, tree: &mech_core::nodes::Program) -> Ev {
    match guarded(|| self.intrp.interpret(tree)) {
      Ok(Ok(v)) => match guarded(|| canon(&v)) { Ok(c) => Ev::Ok(c), Err(p) => Ev::Panic(format!("canon: {}", p)) },
      Ok(Err(e)) => Ev::Err(e.kind_name(), e.full_chain_message()),
      Err(p) => Ev::Panic(format!("interpret: {}", p)),
    }
  }

  /// first line of the last plan step = name of the generated arm that ran
  pub fn last_arm(&self) -> String {
    let plan = self.intrp.plan();
    let p = plan.borrow();
    match p.last() {
      Some(f) => guarded(|| f.to_string().lines().next().unwrap_or("").trim().to_string()).unwrap_or_default(),
      None => String::new(),
    }
  }
  pub fn plan_len(&self) -> usize { self.intrp.plan().borrow().len() }

  /// deep snapshot of all named symbols except `ans`
  pub fn snapshot(&self) -> Snapshot {
    let mut out = BTreeMap::new();
    let syms = self.intrp.symbols();
    let st = syms.borrow();
    let dict = st.dictionary.borrow();
    for (id, v) in st.symbols.iter() {
      let name = dict.get(id).cloned().unwrap_or_else(|| format!("#{}", id));
      if name == "ans" { continue; }
      out.insert(name, canon(&v.borrow()));
    }
    out
  }
  pub fn mutable_names(&self) -> Vec<String> {
    let syms = self.intrp.symbols();
    let st = syms.borrow();
    let dict = st.dictionary.borrow();
    let mut v: Vec<String> = st.mutable_variables.keys().map(|id| dict.get(id).cloned().unwrap_or_else(|| format!("#{}", id))).collect();
    v.sort();
    v
  }
  pub fn get(&self, name: &str) -> Option<CVal> {
    let syms = self.intrp.symbols();
    let st = syms.borrow();
    st.get(hash_str(name)).map(|v| canon(&v.borrow()))
  }
}

pub fn show_snapshot(s: &Snapshot) -> String {
  s.iter().map(|(k, v)| format!("{}={}", k, v.show())).collect::<Vec<_>>().join("; ")
}
