//! C10 Literate documents: prose is inert and named code blocks are isolated.

use crate::canon::*;
use crate::fw::*;
use crate::genprog::*;
use crate::sess::*;
use mech_core::hash_str;
use serde_json::{json, Value as J};
use std::collections::BTreeMap;

pub struct C10;

/// static prose corpus: (element kind, text). None of it is executable Mech code.
const PROSE: [(&str, &str); 55] = [
  ("paragraph", "This is a paragraph of ordinary prose that explains what follows."),
  ("paragraph", "Prose may mention names like x and y, numbers like 42, and punctuation: commas, semicolons; even (parentheses)."),
  ("paragraph", "A longer paragraph\nthat continues on a second line and a third\nline before it ends."),
  ("paragraph", "Emphasis with *stars*, **strong text**, _underscores_ and `inline code` is still prose."),
  ("paragraph", "Links such as [the docs](https://docs.mech-lang.org) and footnote-like text[1] are prose."),
  ("section", "1. Overview\n-------------------------------------------------------------------------------"),
  ("section", "2. Details\n-----------"),
  ("section", "A. Appendix\n----------"),
  ("subsection", "(1.1) A numbered subsection"),
  ("subsection", "(2.3.1) Deeper"),
  ("bullet-list", "- first item\n- second item\n- third item"),
  ("bullet-list", "- an item\n  - a nested item\n  - another nested item\n- back out"),
  ("numbered-list", "1. one\n2. two\n3. three"),
  ("check-list", "-[ ] not done\n-[x] done"),
  ("quote", "> A block quote with some text."),
  ("quote", "> A quote\n> on two lines."),
  ("thematic-break", "***"),
  ("thematic-break", "*******"),
  ("md-table", "| Name | Value |\n|------|-------|\n| a    | 1     |\n| b    | 2     |"),
  ("md-table", "| Left | Right |\n|:-----|------:|\n| x    | 10    |"),
  ("plain-fence", "```\nplain := 5\nx := 99\n```"),
  ("plain-fence", "~~~\nthis is preformatted\n  text := 1\n~~~"),
  ("other-language-fence", "```python\nx = 99\nprint(x)\n```"),
  ("other-language-fence", "```rust\nlet x = 99;\n```"),
  ("other-language-fence", "```ebnf\nX := A | B, C ;\n```"),
  ("disabled-fence", "```mech:disabled\nx := 99\nv1 := 77\n```"),
  ("disabled-fence", "```mech:disabled\n~v2 := [9 9 9]\nv2[1] = 0\n```"),
  ("comment", "-- a line comment"),
  ("comment", "// another line comment"),
  ("comment-with-code", "-- reset it; a = 9"),
  ("comment-with-code", "// a note; v1 = 9; v2 += 1"),
  ("comment-with-code", "-- a = 9"),
  ("paragraph", "Prose that ends in something like an assignment after a semicolon; a = 9"),
  ("plain-fence", "```\n-- inside a fence; a = 9\n```"),
  ("info-block", "(i)> An informational callout."),
  ("warning-block", "(!)> A warning callout."),
  ("question-block", "(?)> A question callout."),
  // call-outs whose first line is a single word (the sigil followed by one identifier also reads as the start of a formula)
  ("error-block", "(x)> An error callout."),
  ("error-block", "(x)> Failed"),
  ("info-block", "(i)> Note"),
  ("warning-block", "(!)> Careful"),
  ("question-block", "(?)> Why"),
  ("success-block", "(✓)> Done"),
  ("error-block", "(✗)> Broken"),
  // Markdown tables without an alignment row, with one column and with bare words as cells
  ("md-table", "| item |\n| apples |"),
  ("md-table", "| item | count |\n| apples | 3 |"),
  ("md-table", "| item |\n|------|\n| apples |"),
  ("paragraph", "A paragraph ending with a colon:"),
  ("paragraph", "Prose with unicode: café, naïve, 数学, and an emoji 🙂."),
  ("paragraph", "A sentence that mentions the define operator in words only."),
  ("abstract", "%% An abstract style paragraph that summarises the document."),
  ("paragraph", "Text with a trailing number 7."),
  ("paragraph", "Two sentences. The second one is short."),
  ("equation-like", "The formula is described in words, not code."),
  ("paragraph", "Final remark before the code continues."),
];

fn snapshot_of(intrp: &mech_interpreter::Interpreter) -> Snapshot {
  let mut out = BTreeMap::new();
  let syms = intrp.symbols(); let st = syms.borrow(); let dict = st.dictionary.borrow();
  for (id, v) in st.symbols.iter() { let name = dict.get(id).cloned().unwrap_or_else(|| format!("#{}", id)); if name == "ans" { continue; } out.insert(name, canon(&v.borrow())); }
  out
}

impl Prop for C10 {
  fn id(&self) -> &'static str { "C10" }
  fn rule(&self) -> String { "(A) prose inertness: generated programs of 2-10 statements interleaved with 0-3 elements per gap from a STATIC prose corpus of 40 snippets (paragraphs, sections, subsections, bullet / numbered / check lists, quotes, thematic breaks, markdown tables, plain and other-language fences, disabled mech fences containing conflicting definitions, comments, callouts), with and without a title; also one cell per (snippet, position) pair; (B) namespaces: statements distributed over 1-3 named fences (split fences of one name, the same variable names with different values per namespace) plus one deliberately failing statement inside a named fence followed by further code. Oracle: final symbols of interpret(document) equal those of interpret(code only); each namespace equals the reference obtained by interpreting its own statements in order; the unnamed table holds no fence variable. Non-trivial = the code-only program interpreted successfully".into() }
  fn assumptions(&self) -> Vec<String> { vec!["document elements are separated by blank lines; the prose corpus is static, so a changed parser cannot filter out the snippets it now misreads".into()] }
  fn floor(&self, tier: Tier) -> usize { if tier == Tier::Quick { 500 } else { 5000 } }

  fn gen(&self, tier: Tier, seed: u64) -> Vec<Case> {
    let mut out = Vec::new();
    // (A1) every snippet at every position of a fixed three-statement program
    let base = ["a := 1", "b := a + 2", "c := [a b] * 2"];
    for (si, (kind, text)) in PROSE.iter().enumerate() {
      for pos in 0..=3 {
        let mut blocks: Vec<String> = Vec::new();
        for (i, st) in base.iter().enumerate() { if i == pos { blocks.push(text.to_string()); } blocks.push(st.to_string()); }
        if pos == 3 { blocks.push(text.to_string()); }
        out.push(Case { id: format!("snippet;kind={};n={};pos={}", kind, si, pos), cell: format!("snippet;kind={};pos={}", kind, if pos == 0 { "before" } else if pos == 3 { "after" } else { "between" }), input: json!({"mode": "prose", "doc": blocks.join("\n\n"), "code": base.join("\n")}) });
      }
    }
    // (A1b) every ordered pair of snippets adjacent to each other, between two statements
    for (i, (k1, t1)) in PROSE.iter().enumerate() { for (j, (k2, t2)) in PROSE.iter().enumerate() {
      let doc = format!("a := 1\n\n{}\n\n{}\n\nb := a + 2", t1, t2);
      out.push(Case { id: format!("pair;first={};second={};i={};j={}", k1, k2, i, j), cell: format!("pair;first={};second={}", k1, k2), input: json!({"mode": "prose", "doc": doc, "code": "a := 1\nb := a + 2"}) });
    } }
    // (A2) generated programs with random interleavings
    let n = if tier == Tier::Quick { 500 } else { 8000 };
    for i in 0..n {
      let mut rng = Rng::keyed(seed, &format!("c10a{}", i));
      let len = 1 + rng.below(9) as usize;
      let general = rng.chance(1, 3); let mut p = random_program(&mut rng, len, general, true);
      // a bare formula on a line of its own is ambiguous between code and prose (the document grammar may read `0.25 / 4 - (2 * 7)` as a
      // paragraph, whose lone `*` is then malformed prose): every code statement of the generated documents is a definition or an assignment
      for (j, st) in p.stmts.iter_mut().enumerate() { if !(st.contains(":=") || st.contains(" = ") || st.contains("+=") || st.contains("-=") || st.contains("*=") || st.contains("/=")) { *st = format!("w{} := {}", j, st); } }
      let mut blocks: Vec<String> = Vec::new();
      let titled = rng.chance(1, 3);
      if titled { blocks.push("A Generated Document\n===============================================================================".into()); }
      let mut kinds = std::collections::BTreeSet::new();
      for st in p.stmts.iter() {
        let mut prev = "";
        for _ in 0..rng.below(3) { let (k, t) = *rng.pick(&PROSE); if prev == "bullet-list" && (k == "check-list" || k == "comment") { continue; } prev = k; kinds.insert(k); blocks.push(t.to_string()); }
        // one statement in four carries a comment on the same line, glued to the last operand or separated by a blank (document only)
        // (glued only to a plain number: names may contain dashes and slashes, so `a--b` and `u8//3` are not comments)
        let ends_in_number = { let t = st.trim_end(); let tail: String = t.chars().rev().take_while(|c| c.is_ascii_digit() || *c == '.').collect(); !tail.is_empty() && !tail.starts_with('.') && t[..t.len() - tail.len()].ends_with(|c: char| c == ' ' || c == '[' || c == '(') };
        let glued = if rng.chance(1, 4) { if ends_in_number { *rng.pick(&["--3", "--note", "-- x = 9", " -- note", " --3 spare", " // note"]) } else { *rng.pick(&[" -- note", " --3 spare", " // note", " -- x = 9"]) } } else { "" };
        blocks.push(format!("{}{}", st, glued));
      }
      for _ in 0..rng.below(2) { let (k, t) = *rng.pick(&PROSE); kinds.insert(k); blocks.push(t.to_string()); }
      out.push(Case { id: format!("interleaved;n={}", i), cell: format!("interleaved;titled={}", titled), input: json!({"mode": "prose", "doc": blocks.join("\n\n"), "code": p.stmts.join("\n")}) });
    }
    // (B) namespaces
    let nb = if tier == Tier::Quick { 300 } else { 4000 };
    for i in 0..nb {
      let mut rng = Rng::keyed(seed, &format!("c10b{}", i));
      let names = ["alpha", "beta", "gamma"];
      let nfences = 2 + rng.below(5) as usize;
      let mut blocks: Vec<String> = Vec::new();
      let mut per_ns: BTreeMap<String, Vec<Vec<String>>> = BTreeMap::new();
      let mut counters: BTreeMap<String, usize> = BTreeMap::new();
      let mut main: Vec<String> = Vec::new();
      let failing = rng.chance(1, 2);
      let fail_at = rng.below(nfences as u64) as usize;
      for f in 0..nfences {
        // unnamed statement between fences
        if rng.chance(1, 2) { let k = main.len(); let st = format!("m{} := {}", k, 100 + k); blocks.push(st.clone()); main.push(st); }
        let name = rng.pick(&names).to_string();
        let c = counters.entry(name.clone()).or_insert(0);
        let mut stmts = Vec::new();
        for _ in 0..1 + rng.below(3) {
          let v = format!("s{}", *c);
          // the same variable names are used in every namespace, with namespace specific values
          let val = (name.len() * 1000 + *c * 7 + rng.below(5) as usize) as i64;
          stmts.push(if *c > 0 && rng.chance(1, 2) { format!("{} := s{} + {}", v, *c - 1, val) } else { format!("{} := {}", v, val) });
          *c += 1;
        }
        // the failing statement is of several kinds (errors with and without source tokens)
        if failing && f == fail_at {
          let at = rng.below(stmts.len() as u64 + 1) as usize;
          if rng.chance(1, 3) {
            // statements that do not even parse (the error is detected at the end of the line or inside it); never the first statement of the fence
            stmts.insert(at.max(1), rng.pick(&["oops := s0 +", "oops := (s0 + ", "oops := s0 + * 2", "oops := s0 -", "oops := s0 &&", "oops := (s0"]).to_string());
          } else {
            stmts.insert(at, rng.pick(&["oops := undefinedname + 1", "oops := 1 + \"a\"", "oops := [1 2] + [1 2 3]", "oops := math/sin(\"a\")", "undefinedname = 3"]).to_string());
          }
        }
        // one named fence in four is floated left or right (the float wrapper must not change what the fence does)
        let float = match rng.below(8) { 0 => "<<: ", 1 => ":>> ", _ => "" };
        // the three documented spellings of the fence tag prefix name the same namespace
        let prefix = match rng.below(6) { 0 => "mec", 1 => "🤖", _ => "mech" };
        let sigil = if rng.chance(1, 6) { "~~~" } else { "```" };
        blocks.push(format!("{}{}{}:{}\n{}\n{}", float, sigil, prefix, name, stmts.join("\n"), sigil));
        per_ns.entry(name).or_default().push(stmts);
      }
      let k = main.len(); let st = format!("m{} := {}", k, 100 + k); blocks.push(st.clone()); main.push(st);
      if rng.chance(1, 2) { blocks.insert(0, "Namespaces\n===============================================================================".into()); }
      out.push(Case { id: format!("namespaces;n={}", i), cell: format!("namespaces;failing={}", failing), input: json!({"mode": "ns", "doc": blocks.join("\n\n"), "main": main.join("\n"), "ns": per_ns}) });
    }
    out
  }

  fn run(&self, case: &Case, _flavour: &str) -> Outcome {
    let doc = case.input["doc"].as_str().unwrap();
    let shown = |s: &str| s.chars().take(700).collect::<String>();
    match case.input["mode"].as_str().unwrap() {
      "prose" => {
        let code = case.input["code"].as_str().unwrap();
        let mut a = Sess::new();
        let ra = a.eval(code);
        if !ra.is_ok() { return Outcome::trivial().tag("code-not-interpretable"); }
        let sa = a.snapshot();
        let mut b = Sess::new();
        let rb = b.eval(doc);
        match rb {
          Ev::Panic(p) => return Outcome::violated("panic-escaped", format!("document\n{}\n{}", shown(doc), p)),
          Ev::ParseErr(m) => return Outcome::violated(if dash_after_list(doc) { "document-rejected:parse:dash-line-after-list" } else { "document-rejected:parse" }, format!("the code alone evaluates but the document does not parse ({}):\n{}", m, shown(doc))),
          Ev::Err(k, m) => return Outcome::violated("document-rejected:eval", format!("the code alone evaluates but the document fails with {} {}:\n{}", k, m.chars().take(100).collect::<String>(), shown(doc))),
          Ev::Ok(_) => {}
        }
        let sb = b.snapshot();
        if sa != sb {
          let extra: Vec<&String> = sb.keys().filter(|k| !sa.contains_key(*k)).collect();
          let missing: Vec<&String> = sa.keys().filter(|k| !sb.contains_key(*k)).collect();
          let class = if !extra.is_empty() { "prose-defined-a-variable" } else if !missing.is_empty() { "code-statement-lost" } else { "value-changed-by-prose" };
          return Outcome::violated(class, format!("document\n{}\ncode only: {}\ndocument:  {}", shown(doc), show_snapshot(&sa), show_snapshot(&sb)));
        }
        if !b.intrp.sub_interpreters.borrow().is_empty() { return Outcome::violated("unexpected-namespace", format!("document\n{}", shown(doc))); }
        Outcome::held()
      }
      "ns" => {
        let main = case.input["main"].as_str().unwrap();
        let ns: BTreeMap<String, Vec<Vec<String>>> = serde_json::from_value(case.input["ns"].clone()).unwrap();
        let mut d = Sess::new();
        let rd = d.eval(doc);
        if let Ev::Panic(p) = &rd { return Outcome::violated("panic-escaped", format!("document\n{}\n{}", shown(doc), p)); }
        if let Ev::ParseErr(m) = &rd { return Outcome::violated("document-rejected:parse", format!("({}):\n{}", m, shown(doc))); }
        // unnamed namespace: exactly the unnamed statements
        let mut m = Sess::new(); let _ = m.eval(main);
        let (sm, sd) = (m.snapshot(), d.snapshot());
        if sm != sd {
          let class = if rd.is_err() { "named-fence-error-stopped-document" } else if sd.keys().any(|k| k.starts_with('s') || k == "oops") { "fence-variable-leaked" } else { "unnamed-program-differs" };
          return Outcome::violated(class, format!("document\n{}\nresult {}\nunnamed statements alone: {}\ndocument unnamed table:   {}", shown(doc), rd.show(), show_snapshot(&sm), show_snapshot(&sd)));
        }
        let subs = d.intrp.sub_interpreters.borrow();
        for (name, fences) in ns.iter() {
          // reference: this name's statements alone, in order, each fence up to its first failing statement
          let mut r = Sess::new();
          for fence in fences.iter() { for st in fence.iter() { if !r.eval(st).is_ok() { break; } } }
          let want = r.snapshot();
          let got = match subs.get(&hash_str(name)) { Some(i) => snapshot_of(i), None => { // fall back: any sub-interpreter with an equal table
            match subs.values().map(|i| snapshot_of(i)).find(|s| *s == want) { Some(s) => s, None => return Outcome::violated("namespace-missing", format!("document\n{}\nno namespace holds the variables of `{}`: {}", shown(doc), name, show_snapshot(&want))) } } };
          if got != want { return Outcome::violated("namespace-differs", format!("document\n{}\nnamespace `{}` holds {} expected {}", shown(doc), name, show_snapshot(&got), show_snapshot(&want))); }
        }
        if subs.len() != ns.len() { return Outcome::violated("namespace-count", format!("document\n{}\n{} namespaces but {} names", shown(doc), subs.len(), ns.len())); }
        Outcome::held()
      }
      _ => Outcome::inconclusive("bad-mode", String::new()),
    }
  }
}

/// value-free refinement of a parse rejection: the document has a bullet list that is followed, after a blank line, by a line
/// that starts with `-` (a check list, a comment, or code such as `-x`)
fn dash_after_list(doc: &str) -> bool {
  let lines: Vec<&str> = doc.lines().collect();
  for i in 0..lines.len() {
    if lines[i].trim_start().starts_with("- ") && i + 2 < lines.len() && lines[i + 1].trim().is_empty() && lines[i + 2].starts_with('-') && !lines[i + 2].starts_with("- ") { return true; }
  }
  false
}
