//! C06 Compiled bytecode computes what the interpreter computed.

use crate::canon::*;
use crate::fw::*;
use crate::genprog::*;
use crate::sess::*;
use mech_core::*;
use mech_interpreter::*;
use mech_syntax::parser;
use serde_json::{json, Value as J};

pub struct C06;

pub fn gen_programs(tier: Tier, seed: u64, ncomp_quick: usize, ncomp_thorough: usize) -> Vec<(String, Prog)> {
  let mut out = Vec::new();
  let mut rng = Rng::keyed(seed, "c06sweep");
  let reps = if tier == Tier::Quick { 1 } else { 6 };
  for r in 0..reps { for (i, p) in construct_sweep(&mut rng).into_iter().enumerate() { out.push((format!("single;n={}.{}", r, i), p)); } }
  let n = if tier == Tier::Quick { ncomp_quick } else { ncomp_thorough };
  for i in 0..n {
    let mut rng = Rng::keyed(seed, &format!("c06comp{}", i));
    let len = 1 + rng.below(14) as usize;
    let general = rng.chance(1, 4);
    let clean = !general && rng.chance(3, 4);
    out.push((format!("composite;n={}", i), random_program_mode(&mut rng, len, general, true, clean)));
  }
  out
}

impl Prop for C06 {
  fn id(&self) -> &'static str { "C06" }
  fn rule(&self) -> String { "two strata of generated programs: (1) a sweep of single-construct programs (every literal kind, every operator family per kind, ranges, every index-read form, every assignment / op-assignment form, per matrix kind and shape; plus matrix/set/table/record/tuple literals, stdlib calls, comprehension, conversion, matmul, transpose), (2) seeded composites of 1-14 typed statements mixing those constructs. Each program is interpreted in session A, compiled, loaded with ParsedProgram::from_bytes and run in a FRESH interpreter B; the canonical results are compared. Non-trivial = the interpreter evaluated the program and compile() produced bytes".into() }
  fn assumptions(&self) -> Vec<String> { vec!["programs of the restricted class (literals, variables, operators, ranges, indexing, assignment over numeric, boolean and string values) must compile, load and run; others may fail but must not produce a different result".into()] }
  fn floor(&self, tier: Tier) -> usize { if tier == Tier::Quick { 600 } else { 6000 } }
  fn flavours(&self, tier: Tier) -> Vec<&'static str> { if tier == Tier::Thorough { vec!["chk", "asan"] } else { vec!["chk"] } }

  fn gen(&self, tier: Tier, seed: u64) -> Vec<Case> {
    let mut out: Vec<Case> = gen_programs(tier, seed, 2500, 40000).into_iter().map(|(id, p)| {
      let cell = format!("stratum={};constructs={}", if p.restricted { "restricted" } else { "general" }, p.constructs());
      Case { id: format!("{};{}", id, cell), cell, input: json!({"src": p.text(), "restricted": p.restricted}) }
    }).collect();
    // every registered native function x argument shapes (general class: the bytecode may refuse, but must not lie)
    for (id, src) in stdlib_sweep().into_iter() {
      let f = id.split(';').next().unwrap_or("").to_string();
      out.push(Case { id: format!("stdlib;{}", id), cell: format!("stratum=general;constructs=stdlib;{}", f), input: json!({"src": src, "restricted": false}) });
    }
    out
  }

  fn run(&self, case: &Case, _flavour: &str) -> Outcome {
    let src = case.input["src"].as_str().unwrap();
    let restricted = case.input["restricted"].as_bool().unwrap();
    let tree = match guarded(|| parser::parse(src)) { Ok(Ok(t)) => t, Ok(Err(e)) => return Outcome::inconclusive("generator-parse", format!("{}: {}", src, e.kind_name())), Err(p) => return Outcome::inconclusive("generator-parse-panic", p) };
    let mut a = Interpreter::new(0);
    let ra = match guarded(|| a.interpret(&tree)) { Ok(Ok(v)) => v, Ok(Err(e)) => return Outcome::trivial().tag(format!("interpret-error:{}", e.kind_name())), Err(p) => return Outcome::trivial().tag("interpret-panic") };
    let ca = canon(&ra);
    let bytes = match guarded(|| a.compile()) {
      Ok(Ok(b)) => b,
      Ok(Err(e)) => return if restricted { Outcome::violated(&format!("restricted-compile-error:{}", e.kind_name()), format!("program\n{}\ninterprets to {} but compile() fails: {}", src, ca.show(), e.full_chain_message().chars().take(200).collect::<String>())) } else { Outcome::trivial().tag(format!("compile-error:{}", e.kind_name())) },
      Err(p) => return Outcome::violated("compile-panic", format!("program\n{}\ncompile() panicked: {}", src, p)),
    };
    let prog = match guarded(|| ParsedProgram::from_bytes(&bytes)) {
      Ok(Ok(p)) => p,
      Ok(Err(e)) => return Outcome::violated(&format!("load-error:{}", e.kind_name()), format!("program\n{}\nemitted bytecode does not load: {}", src, e.full_chain_message().chars().take(200).collect::<String>())),
      Err(p) => return Outcome::violated("load-panic", format!("program\n{}\nfrom_bytes panicked: {}", src, p)),
    };
    let mut b = Interpreter::new(1);
    let rb = match guarded(|| b.run_program(&prog)) {
      Ok(Ok(v)) => v,
      Ok(Err(e)) => return if restricted { let un = unregistered_arms(&a, &b); let cls = if e.kind_name().starts_with("Unknown") && !un.is_empty() { format!("restricted-run-error:unregistered:{}", un[0]) } else { format!("restricted-run-error:{}", e.kind_name()) }; Outcome::violated(&cls, format!("program\n{}\ninterprets to {} but its bytecode fails in a fresh interpreter: {}", src, ca.show(), e.full_chain_message().chars().take(200).collect::<String>())) } else { Outcome::held().tag(format!("run-error:{}", e.kind_name())) },
      Err(p) => return Outcome::violated("run-panic", format!("program\n{}\nrun_program panicked: {}", src, p)),
    };
    let cb = match guarded(|| canon(&rb)) { Ok(c) => c, Err(p) => return Outcome::violated("run-result-unreadable", p) };
    if ca != cb { let cls = if case.cell.contains("trailing-reference") { "result-differs:trailing-reference" } else if case.cell.contains("final-literal") { "result-differs:final-literal" } else { "result-differs" }; return Outcome::violated(cls, format!("program\n{}\ninterpreter: {}\nbytecode:    {}", src, ca.show(), cb.show())); }
    // observation only (the property speaks of running the bytecode, not of re-evaluating the loaded plan; the variables of a
    // re-evaluated loaded plan are judged by C19): what one more evaluation of the loaded plan returns
    let mut o = Outcome::held().num("bytes", bytes.len() as f64).num("instrs", prog.instrs.len() as f64);
    if !case.cell.contains("assign") && !case.cell.contains("stdlib") {
      match guarded(|| b.step(0, 1)) {
        Ok(Ok(v)) => { let same = guarded(|| canon(&v)).map(|cs| cs == ca).unwrap_or(false); o = o.tag(if same { "restep:same" } else { "restep:differs" }); }
        Ok(Err(e)) => { o = o.tag(format!("restep-error:{}", e.kind_name())); }
        Err(_) => { o = o.tag("restep-panic"); }
      }
    }
    o
  }
}

/// plan steps of `a` whose bytecode names a function the registry of `b` does not hold, in plan order
pub fn unregistered_arms(a: &Interpreter, b: &Interpreter) -> Vec<String> {
  let mut out = Vec::new();
  let plan = a.plan();
  let fb = b.functions();
  for step in plan.borrow().iter() {
    let mut ctx = CompileCtx::new();
    if guarded(|| step.compile(&mut ctx)).map(|r| r.is_ok()).unwrap_or(false) {
      for ins in ctx.instrs.iter() {
        let id = match ins { EncodedInstr::NullOp { fxn_id, .. } | EncodedInstr::UnOp { fxn_id, .. } | EncodedInstr::BinOp { fxn_id, .. } | EncodedInstr::TernOp { fxn_id, .. } | EncodedInstr::QuadOp { fxn_id, .. } | EncodedInstr::VarArg { fxn_id, .. } => Some(*fxn_id), _ => None };
        if let Some(id) = id { if !fb.borrow().functions.contains_key(&id) { let name = guarded(|| step.to_string().split_whitespace().next().unwrap_or("").to_string()).unwrap_or_default(); out.push(name); break; } }
      }
    }
  }
  out
}
