//! C05 Bindings are isolated: immutable means unchanged, failures change nothing.

use crate::canon::*;
use crate::fw::*;
use crate::sess::*;
use serde_json::{json, Value as J};
use std::collections::{BTreeMap, BTreeSet};

pub struct C05;

/// literal, alternative literal of the same kind/shape, mutations (text with `$` = the variable), which alias forms apply
struct VK { name: &'static str, lit: &'static str, alt: &'static str, muts: &'static [(&'static str, &'static str)], forms: &'static [&'static str] }

const VKS: [VK; 9] = [
  VK { name: "scalar", lit: "5", alt: "9", muts: &[("assign", "$ = 9"), ("opassign", "$ += 1")], forms: &["ref", "mutref", "bracket", "tuple", "record", "arith", "annot", "set", "nested"] },
  VK { name: "matrix", lit: "[1 2 3]", alt: "[7 8 9]", muts: &[("assign", "$ = [7 8 9]"), ("ixassign", "$[1] = 100"), ("opassign", "$ += 1"), ("rangeassign", "$[1..=2] = 0"), ("ixopassign", "$[[1 2]] += 5")], forms: &["ref", "mutref", "bracket", "tuple", "record", "arith", "slice", "annot", "nested"] },
  VK { name: "matrix2", lit: "[1 2; 3 4]", alt: "[5 6; 7 8]", muts: &[("assign", "$ = [5 6; 7 8]"), ("ixassign", "$[2,1] = 100"), ("rowassign", "$[1,:] = 0"), ("opassign", "$ *= 2")], forms: &["ref", "mutref", "tuple", "record", "arith", "slice", "nested"] },
  VK { name: "record", lit: "{a: 1, b: 2}", alt: "{a: 7, b: 8}", muts: &[("assign", "$ = {a: 7, b: 8}"), ("fieldassign", "$.a = 10")], forms: &["ref", "mutref", "tuple", "record", "nested"] },
  VK { name: "tuple", lit: "(1, 2)", alt: "(7, 8)", muts: &[("assign", "$ = (7, 8)"), ("elemassign", "$.1 = 5")], forms: &["ref", "mutref", "tuple", "record", "nested"] },
  VK { name: "set", lit: "{1, 2, 3}", alt: "{7, 8}", muts: &[("assign", "$ = {7, 8}")], forms: &["ref", "mutref", "tuple", "record"] },
  VK { name: "table", lit: "|a<f64> b<f64>| 1 2 | 3 4 |", alt: "|a<f64> b<f64>| 7 8 | 9 10 |", muts: &[("assign", "$ = |a<f64> b<f64>| 7 8 | 9 10 |"), ("colassign", "$.a = [9; 9]")], forms: &["ref", "mutref", "tuple", "record"] },
  VK { name: "map", lit: "{\"a\": 10, \"b\": 20}", alt: "{\"c\": 1}", muts: &[("assign", "$ = {\"c\": 1}"), ("keyassign", "${\"a\"} = 99"), ("keyinsert", "${\"z\"} = 5")], forms: &["ref", "mutref", "tuple", "record"] },
  VK { name: "string", lit: "\"hi\"", alt: "\"yo\"", muts: &[("assign", "$ = \"yo\"")], forms: &["ref", "mutref", "bracket", "tuple", "record"] },
];

fn alias_text(form: &str, y: &str, x: &str, vk: &VK) -> String {
  match form {
    "ref" => format!("{} := {}", y, x),
    "mutref" => format!("~{} := {}", y, x),
    "bracket" => format!("{} := [{}]", y, x),
    "tuple" => format!("{} := ({}, 1)", y, x),
    "record" => format!("{} := {{f: {}}}", y, x),
    "arith" => format!("{} := {} + 0", y, x),
    "slice" => format!("{} := {}[:]", y, x),
    "annot" => if vk.name == "scalar" { format!("{}<f64> := {}", y, x) } else { format!("{}<[f64]:1,3> := {}", y, x) },
    "set" => format!("{} := {{{}}}", y, x),
    "nested" => format!("{} := ({{g: {}}}, 2)", y, x),
    _ => unreachable!(),
  }
}

#[derive(Clone)]
struct Stmt { src: String, targets: Vec<String>, expect: &'static str /* ok-or-err | err */, what: String }

fn sj(s: &Stmt) -> J { json!({"src": s.src, "targets": s.targets, "expect": s.expect, "what": s.what}) }

impl Prop for C05 {
  fn id(&self) -> &'static str { "C05" }
  fn rule(&self) -> String { "three strata: (1) alias matrix: every way y can be bound from x (9 forms, both directions) x every mutation of the source x 8 value kinds; (2) every stated invalid-statement class (redefinition, assignment to undefined / immutable, runtime failures) x value kinds, in sessions with bystanders; (3) seeded random sessions of 5-25 statements over 6 names. After every statement the deep snapshot of Interpreter::symbols() is compared with a copy-semantics reference store. Non-trivial = at least one later statement succeeded while other names were bound (isolation actually exercised) or a failing statement was observed".into() }
  fn assumptions(&self) -> Vec<String> { vec!["for the target of a successful statement the model adopts the implementation's value (isolation, not arithmetic, is under test); every other name must be bitwise unchanged".into()] }
  fn floor(&self, tier: Tier) -> usize { if tier == Tier::Quick { 300 } else { 2000 } }

  fn gen(&self, tier: Tier, seed: u64) -> Vec<Case> {
    let mut out = Vec::new();
    // (1) alias matrix
    for vk in VKS.iter() {
      for form in vk.forms.iter() {
        for (mname, mtext) in vk.muts.iter() {
          // forward: x mutable source, y derived (immutable unless mutref) ; mutate x ; y must not change
          let stmts = vec![
            Stmt { src: format!("~x := {}", vk.lit), targets: vec!["x".into()], expect: "ok-or-err", what: "define".into() },
            Stmt { src: "w := 42".into(), targets: vec!["w".into()], expect: "ok-or-err", what: "define".into() },
            Stmt { src: alias_text(form, "y", "x", vk), targets: vec!["y".into()], expect: "ok-or-err", what: format!("alias-{}", form) },
            Stmt { src: mtext.replace('$', "x"), targets: vec!["x".into()], expect: "ok-or-err", what: format!("mutate-{}", mname) },
          ];
          let cell = format!("alias;dir=fwd;from={};mut={};kind={}", form, mname, vk.name);
          out.push(Case { id: cell.clone(), cell, input: json!({"stmts": stmts.iter().map(sj).collect::<Vec<_>>()}) });
        }
        // reverse: x immutable, ~y := form(x) ; mutate y ; x must not change (only when y has x's own kind: ref/mutref/arith/annot/slice)
        if matches!(*form, "mutref") {
          for (mname, mtext) in vk.muts.iter() {
            let stmts = vec![
              Stmt { src: format!("x := {}", vk.lit), targets: vec!["x".into()], expect: "ok-or-err", what: "define".into() },
              Stmt { src: "~y := x".into(), targets: vec!["y".into()], expect: "ok-or-err", what: "alias-mutref".into() },
              Stmt { src: "z := x".into(), targets: vec!["z".into()], expect: "ok-or-err", what: "alias-ref".into() },
              Stmt { src: mtext.replace('$', "y"), targets: vec!["y".into()], expect: "ok-or-err", what: format!("mutate-{}", mname) },
            ];
            let cell = format!("alias;dir=rev;from={};mut={};kind={}", form, mname, vk.name);
            out.push(Case { id: cell.clone(), cell, input: json!({"stmts": stmts.iter().map(sj).collect::<Vec<_>>()}) });
          }
        }
      }
      // tuple destructure shares?
      if vk.name != "tuple" {
        let stmts = vec![
          Stmt { src: format!("~x := {}", vk.lit), targets: vec!["x".into()], expect: "ok-or-err", what: "define".into() },
          Stmt { src: "t := (x, 3)".into(), targets: vec!["t".into()], expect: "ok-or-err", what: "alias-tuple".into() },
          Stmt { src: "(p, q) := t".into(), targets: vec!["p".into(), "q".into()], expect: "ok-or-err", what: "destructure".into() },
          Stmt { src: vk.muts[0].1.replace('$', "x"), targets: vec!["x".into()], expect: "ok-or-err", what: format!("mutate-{}", vk.muts[0].0) },
        ];
        let cell = format!("alias;dir=fwd;from=destructure;mut={};kind={}", vk.muts[0].0, vk.name);
        out.push(Case { id: cell.clone(), cell, input: json!({"stmts": stmts.iter().map(sj).collect::<Vec<_>>()}) });
      }
    }
    // (2) invalid statement classes
    for vk in VKS.iter() {
      let pre = vec![
        Stmt { src: format!("a := {}", vk.lit), targets: vec!["a".into()], expect: "ok-or-err", what: "define".into() },
        Stmt { src: format!("~b := {}", vk.lit), targets: vec!["b".into()], expect: "ok-or-err", what: "define".into() },
        Stmt { src: "w := [10 20 30]".into(), targets: vec!["w".into()], expect: "ok-or-err", what: "define".into() },
      ];
      let mut invalid: Vec<(&str, String, Vec<String>, &'static str)> = vec![
        ("redefine-immutable", format!("a := {}", vk.alt), vec!["a".into()], "err"),
        ("redefine-mutable", format!("b := {}", vk.alt), vec!["b".into()], "err"),
        ("redefine-as-mutable", format!("~a := {}", vk.alt), vec!["a".into()], "err"),
        ("assign-undefined", format!("zz = {}", vk.alt), vec!["zz".into()], "err"),
        ("assign-immutable", format!("a = {}", vk.alt), vec!["a".into()], "err"),
        ("undefined-reference", "c := nope + 1".to_string(), vec!["c".into()], "err"),
        ("undefined-reference-in-assign", "b = nope".to_string(), vec!["b".into()], "err"),
        ("define-from-failing-expr", "c := w[99]".to_string(), vec!["c".into()], "err"),
        ("define-tuple-partial-fail", "(c, a) := (1, 2)".to_string(), vec!["c".into(), "a".into()], "err"),
      ];
      // the built-in `ans` names the previous result: assigning through it must not reach the variable that produced it
      let ans_stmts: Vec<(&str, String)> = vec![("assign-ans", format!("ans = {}", vk.alt)), ("opassign-ans", "ans += 1".to_string()), ("ixassign-ans", "ans[1] = 9".to_string()), ("fieldassign-ans", "ans.a = 4".to_string())];
      for (i, (iname, src)) in ans_stmts.iter().enumerate() {
        for last in ["a", "b"] {
          let mut stmts = pre.clone();
          stmts.push(Stmt { src: last.to_string(), targets: vec![], expect: "ok-or-err", what: "reference".into() });
          stmts.push(Stmt { src: src.clone(), targets: vec!["ans".into()], expect: "ok-or-err", what: format!("ans-{}", iname) });
          stmts.push(Stmt { src: "v := 1".into(), targets: vec!["v".into()], expect: "ok-or-err", what: "define".into() });
          let cell = format!("ans;class={};kind={};after={}", iname, vk.name, last);
          out.push(Case { id: format!("{};n={}", cell, i), cell, input: json!({"stmts": stmts.iter().map(sj).collect::<Vec<_>>()}) });
        }
      }
      for (mname, mtext) in vk.muts.iter() {
        if *mname != "assign" { invalid.push(("mutate-immutable", mtext.replace('$', "a"), vec!["a".into()], "err")); }
      }
      match vk.name {
        "matrix" | "matrix2" => {
          // an index list / range whose LAST member is one past the end (a partial write before the failure would show)
          let n = if vk.name == "matrix" { 3 } else { 4 };
          invalid.push(("index-list-partly-out", format!("b[[1 {}]] = 0", n + 1), vec!["b".into()], "err"));
          invalid.push(("index-range-partly-out", format!("b[2..={}] = 0", n + 1), vec!["b".into()], "err"));
          invalid.push(("index-list-partly-out-opassign", format!("b[[1 2 {}]] += 1", n + 1), vec!["b".into()], "err"));
          if vk.name == "matrix2" { invalid.push(("index-2d-partly-out", "b[1,[1 3]] = 0".into(), vec!["b".into()], "err")); invalid.push(("index-2d-rows-partly-out", "b[[1 3],1] = 0".into(), vec!["b".into()], "err")); invalid.push(("index-2d-allrows-partly-out", "b[:,[2 3]] = 0".into(), vec!["b".into()], "err")); }
          invalid.push(("index-out-of-range", "b[99] = 1".into(), vec!["b".into()], "err")); invalid.push(("kind-error", "b[1] = \"s\"".into(), vec!["b".into()], "err")); invalid.push(("opassign-kind-error", "b += \"s\"".into(), vec!["b".into()], "err")); }
        "record" => { invalid.push(("missing-field", "b.nofield = 1".into(), vec!["b".into()], "err")); invalid.push(("field-kind-error", "b.a = \"s\"".into(), vec!["b".into()], "ok-or-err")); }
        "tuple" => { invalid.push(("tuple-index-out-of-range", "b.9 = 1".into(), vec!["b".into()], "err")); invalid.push(("tuple-index-zero", "b.0 = 1".into(), vec!["b".into()], "ok-or-err")); }
        "table" => { invalid.push(("missing-column", "b.nocol = [1; 2]".into(), vec!["b".into()], "err")); invalid.push(("column-length", "b.a = [1; 2; 3]".into(), vec!["b".into()], "err")); invalid.push(("column-kind-error", "b.a = [\"x\"; \"y\"]".into(), vec!["b".into()], "ok-or-err")); }
        // a map element assignment whose key or value has the wrong kind: whether it is rejected is the implementation's choice, but a rejected one must change nothing
        "map" => { invalid.push(("map-key-kind", "b{1} = 5".into(), vec!["b".into()], "ok-or-err")); invalid.push(("map-value-kind", "b{\"a\"} = \"s\"".into(), vec!["b".into()], "ok-or-err")); invalid.push(("map-new-key-value-kind", "b{\"zz\"} = \"s\"".into(), vec!["b".into()], "ok-or-err")); invalid.push(("map-key-kind-bool", "b{true} = 5".into(), vec!["b".into()], "ok-or-err")); invalid.push(("map-immutable-key-kind", "a{1} = 5".into(), vec!["a".into()], "err")); }
        _ => {}
      }
      for (i, (iname, src, targets, exp)) in invalid.iter().enumerate() {
        let mut stmts = pre.clone();
        stmts.push(Stmt { src: src.clone(), targets: targets.clone(), expect: exp, what: format!("invalid-{}", iname) });
        // a valid follow-up so that a half-applied failing statement becomes visible later too
        stmts.push(Stmt { src: "v := 1".into(), targets: vec!["v".into()], expect: "ok-or-err", what: "define".into() });
        let cell = format!("invalid;class={};kind={}", iname, vk.name);
        out.push(Case { id: format!("{};n={}", cell, i), cell, input: json!({"stmts": stmts.iter().map(sj).collect::<Vec<_>>()}) });
      }
    }
    // (2a') whole-variable assignment FROM a variable (b = a): a is a bystander of the assignment, and of later mutations of b
    for vk in VKS.iter() {
      for (mname, mtext) in vk.muts.iter() {
        let stmts = vec![
          Stmt { src: format!("a := {}", vk.lit), targets: vec!["a".into()], expect: "ok-or-err", what: "define".into() },
          Stmt { src: format!("~b := {}", vk.alt), targets: vec!["b".into()], expect: "ok-or-err", what: "define".into() },
          Stmt { src: "w := 42".into(), targets: vec!["w".into()], expect: "ok-or-err", what: "define".into() },
          Stmt { src: "b = a".into(), targets: vec!["b".into()], expect: "ok-or-err", what: "alias-assign".into() },
          Stmt { src: mtext.replace('$', "b"), targets: vec!["b".into()], expect: "ok-or-err", what: format!("mutate-{}", mname) },
        ];
        let cell = format!("alias;dir=fwd;from=assign;mut={};kind={}", mname, vk.name);
        out.push(Case { id: cell.clone(), cell, input: json!({"stmts": stmts.iter().map(sj).collect::<Vec<_>>()}) });
      }
    }
    // (2b) definitions whose value cannot be converted to the (defined) annotated kind: the failing statement must define nothing
    let bad_defs: [(&str, &str); 12] = [
      ("u8-from-string", "c<u8> := \"abc\""), ("f64-from-string", "c<f64> := \"abc\""), ("mut-f64-from-atom", "~c<f64> := :A"), ("u8-from-atom", "c<u8> := :A"),
      ("mut-i32-from-string", "~c<i32> := \"7\""), ("bool-from-string", "c<bool> := \"true\""), ("f32-from-record", "c<f32> := {a: 1}"), ("u16-from-tuple", "~c<u16> := (1, 2)"),
      ("matrix-from-string", "c<[f64]:1,2> := \"ab\""), ("mut-matrix-from-atom", "~c<[u8]:1,2> := :A"), ("f64-from-set", "c<f64> := {1, 2}"), ("string-from-record", "c<string> := {a: 1}"),
    ];
    for (i, (bname, src)) in bad_defs.iter().enumerate() {
      for pre_kind in [0usize, 1, 3] {
        let stmts = vec![
          Stmt { src: format!("a := {}", VKS[pre_kind].lit), targets: vec!["a".into()], expect: "ok-or-err", what: "define".into() },
          Stmt { src: format!("~b := {}", VKS[pre_kind].lit), targets: vec!["b".into()], expect: "ok-or-err", what: "define".into() },
          Stmt { src: src.to_string(), targets: vec!["c".into()], expect: "ok-or-err", what: format!("define-unconvertible-{}", bname) },
          Stmt { src: "c = 3".into(), targets: vec!["c".into()], expect: "ok-or-err", what: "assign-after-define-attempt".into() },
          Stmt { src: "v := 1".into(), targets: vec!["v".into()], expect: "ok-or-err", what: "define".into() },
        ];
        let cell = format!("invalid;class=define-unconvertible-{};kind={}", bname, VKS[pre_kind].name);
        out.push(Case { id: format!("{};n={}", cell, i), cell, input: json!({"stmts": stmts.iter().map(sj).collect::<Vec<_>>()}) });
      }
    }
    // (2e) element kinds: a definition of every element kind in every definition form either defines exactly its name or fails and
    // defines nothing; the follow-ups (assignment, op-assignment, a second definition of the name, an unrelated definition) see the
    // name as the first statement left it. The kind dispatch of define / assign is one generated arm per kind.
    let ekinds: [(&str, &str, &str, &str); 18] = [
      ("u8", "2<u8>", "3<u8>", "7<u8>"), ("u16", "2<u16>", "3<u16>", "7<u16>"), ("u32", "2<u32>", "3<u32>", "7<u32>"), ("u64", "2<u64>", "3<u64>", "7<u64>"), ("u128", "2<u128>", "3<u128>", "7<u128>"),
      ("i8", "2<i8>", "3<i8>", "7<i8>"), ("i16", "2<i16>", "3<i16>", "7<i16>"), ("i32", "2<i32>", "3<i32>", "7<i32>"), ("i64", "2<i64>", "3<i64>", "7<i64>"), ("i128", "2<i128>", "3<i128>", "7<i128>"),
      ("f32", "2<f32>", "3<f32>", "7<f32>"), ("f64", "2.5", "3.5", "7.5"), ("bool", "true", "false", "true"), ("string", "\"ab\"", "\"cd\"", "\"ef\""),
      ("r64", "1/2", "3/4", "5/7"), ("c64", "1+2i", "3+4i", "5+6i"), ("u8s", "2u8", "3u8", "7u8"), ("i128s", "2i128", "3i128", "7i128"),
    ];
    for (k, a, b, c) in ekinds.iter() {
      let kind = k.trim_end_matches('s');
      let arith = if *k == "bool" { format!("{} & {}", a, b) } else if *k == "string" { a.to_string() } else { format!("{} + {}", a, b) };
      let forms: Vec<(&str, String)> = vec![
        ("plain", format!("c := {}", a)), ("mut", format!("~c := {}", a)), ("annot", format!("c<{}> := {}", kind, a)), ("mut-annot", format!("~c<{}> := {}", kind, a)),
        ("computed", format!("~c := {}", arith)), ("row", format!("c := [{} {}]", a, b)), ("mut-row", format!("~c := [{} {} {}]", a, b, c)), ("col", format!("~c := [{}; {}]", a, b)),
        ("matrix", format!("~c := [{} {}; {} {}]", a, b, c, a)), ("set", format!("c := {{{}, {}}}", a, b)), ("tuple", format!("~c := ({}, {})", a, b)), ("record", format!("c := {{f: {}}}", a)),
        ("option", format!("c<{}?> := {}", kind, a)),
      ];
      for (fname, def) in forms.iter() {
        let stmts = vec![
          Stmt { src: format!("a := {}", a), targets: vec!["a".into()], expect: "ok-or-err", what: "define".into() },
          Stmt { src: "~w := 42".into(), targets: vec!["w".into()], expect: "ok-or-err", what: "define".into() },
          Stmt { src: def.clone(), targets: vec!["c".into()], expect: "err-if-defined", what: format!("define-kind-{}", fname) },
          Stmt { src: format!("c = {}", c), targets: vec!["c".into()], expect: "ok-or-err", what: "assign-after-define".into() },
          Stmt { src: format!("c := {}", b), targets: vec!["c".into()], expect: "err-if-defined", what: "invalid-redefine-after-define".into() },
          Stmt { src: format!("~c := {}", b), targets: vec!["c".into()], expect: "err-if-defined", what: "invalid-redefine-as-mutable-after-define".into() },
          Stmt { src: format!("c += {}", b), targets: vec!["c".into()], expect: "ok-or-err", what: "opassign-after-define".into() },
          Stmt { src: format!("a := {}", b), targets: vec!["a".into()], expect: "err-if-defined", what: "invalid-redefine".into() },
          Stmt { src: format!("v := {}", c), targets: vec!["v".into()], expect: "ok-or-err", what: "define".into() },
        ];
        let cell = format!("ekind;kind={};form={}", k, fname);
        out.push(Case { id: cell.clone(), cell, input: json!({"stmts": stmts.iter().map(sj).collect::<Vec<_>>()}) });
      }
    }
    // (2c) user functions whose body assigns to a parameter, called with a variable of exactly the declared kind: the caller's
    // variable is a bystander of the call statement whatever the call does
    let fns: [(&str, &str, &str, &str); 8] = [
      ("scalar-assign", "fset(x<f64>) = z<f64> :=\n    x = 99\n    z := x + 1.", "5", "fset"),
      ("scalar-opassign", "finc(x<f64>) = z<f64> :=\n    x += 1\n    z := x * 2.", "5", "finc"),
      ("u8-assign", "fset8(x<u8>) = z<u8> :=\n    x = 9<u8>\n    z := x + 1<u8>.", "5<u8>", "fset8"),
      ("i64-opassign", "fdec(x<i64>) = z<i64> :=\n    x -= 1<i64>\n    z := x + 0<i64>.", "5<i64>", "fdec"),
      ("matrix-ixassign", "fmix(x<[f64]:1,3>) = z<[f64]:1,3> :=\n    x[1] = 99\n    z := x + 1.", "[1 2 3]", "fmix"),
      ("matrix-opassign", "fmop(x<[f64]:1,3>) = z<[f64]:1,3> :=\n    x += 1\n    z := x + 1.", "[1 2 3]", "fmop"),
      ("matrix-assign", "fmas(x<[f64]:1,3>) = z<[f64]:1,3> :=\n    x = [7 8 9]\n    z := x + 1.", "[1 2 3]", "fmas"),
      ("string-assign", "fstr(x<string>) = z<string> :=\n    x = \"yo\"\n    z := x.", "\"hi\"", "fstr"),
    ];
    for (i, (fname, def, lit, f)) in fns.iter().enumerate() {
      for (m, callform) in [("", "r := $(a)"), ("~", "r := $(a)"), ("", "$(a)"), ("~", "$(a)")] {
        let call = callform.replace('$', f);
        let tg: Vec<String> = if call.starts_with("r :=") { vec!["r".into()] } else { vec![] };
        let stmts = vec![
          Stmt { src: def.to_string(), targets: vec![], expect: "ok-or-err", what: "define-function".into() },
          Stmt { src: format!("{}a := {}", m, lit), targets: vec!["a".into()], expect: "ok-or-err", what: "define".into() },
          Stmt { src: "b := a".into(), targets: vec!["b".into()], expect: "ok-or-err", what: "alias-ref".into() },
          Stmt { src: call.clone(), targets: tg.clone(), expect: "ok-or-err", what: format!("call-assigning-param-{}", fname) },
          Stmt { src: call.replace("r :=", "r2 :="), targets: if tg.is_empty() { vec![] } else { vec!["r2".into()] }, expect: "ok-or-err", what: format!("call-assigning-param-{}", fname) },
          Stmt { src: "v := 1".into(), targets: vec!["v".into()], expect: "ok-or-err", what: "define".into() },
        ];
        let cell = format!("fncall;fn={};mutable={};form={}", fname, !m.is_empty(), if tg.is_empty() { "bare" } else { "define" });
        out.push(Case { id: format!("{};n={}", cell, i), cell, input: json!({"stmts": stmts.iter().map(sj).collect::<Vec<_>>()}) });
      }
    }
    // (2c') functions written as MATCH ARMS (also recursive / tail recursive), called where variables of the caller are named like
    // the parameter and like the pattern variables: the call defines nothing but its target, also when it fails
    let armfns: [(&str, &str, &str); 5] = [
      ("is-zero", "is-zero(x<u64>) => <u64>\n  | 0 => 1u64\n  | n => 0u64.", "is-zero(0u64)"),
      ("arm-var", "twice(x<u64>) => <u64>\n  | n => n + n.", "twice(4u64)"),
      ("countdown", "cnt(x<u64>) => <u64>\n  | 0 => 0u64\n  | n => cnt(n - 1u64).", "cnt(3u64)"),
      ("pair", "addp(x<u64>, y<u64>) => <u64>\n  | (0, n) => n\n  | (m, n) => m + n.", "addp(2u64, 3u64)"),
      ("no-arm", "only0(x<u64>) => <u64>\n  | 0 => 1u64.", "only0(5u64)"),
    ];
    for (i, (fname, def, call)) in armfns.iter().enumerate() {
      for m in ["", "~"] { for form in ["define", "bare", "with-variable"] {
        let callsrc = match form { "define" => format!("r := {}", call), "bare" => call.to_string(), _ => format!("r := {}", call.replace("0u64)", "x)").replace("4u64)", "x)").replace("3u64)", "x)").replace("5u64)", "x)")) };
        let tg: Vec<String> = if callsrc.starts_with("r :=") { vec!["r".into()] } else { vec![] };
        let stmts = vec![
          Stmt { src: def.to_string(), targets: vec![], expect: "ok-or-err", what: "define-function".into() },
          Stmt { src: format!("{}x := 5u64", m), targets: vec!["x".into()], expect: "ok-or-err", what: "define".into() },
          Stmt { src: format!("{}n := 7u64", m), targets: vec!["n".into()], expect: "ok-or-err", what: "define".into() },
          Stmt { src: "y := 9u64".into(), targets: vec!["y".into()], expect: "ok-or-err", what: "define".into() },
          Stmt { src: callsrc.clone(), targets: tg.clone(), expect: "ok-or-err", what: format!("call-arm-function-{}", fname) },
          Stmt { src: "v := 1".into(), targets: vec!["v".into()], expect: "ok-or-err", what: "define".into() },
          Stmt { src: if m.is_empty() { "w2 := n + x".to_string() } else { "n = 2u64".to_string() }, targets: if m.is_empty() { vec!["w2".into()] } else { vec!["n".into()] }, expect: "ok-or-err", what: "use-after-call".into() },
        ];
        let cell = format!("armcall;fn={};mutable={};form={}", fname, !m.is_empty(), form);
        out.push(Case { id: format!("{};n={}", cell, i), cell, input: json!({"stmts": stmts.iter().map(sj).collect::<Vec<_>>()}) });
      } }
    }
    // (2d) the op-assignment kernels are also callable by name: a call with an immutable variable must not change it
    for (i, f) in ["math/add-assign", "math/sub-assign", "math/mul-assign", "math/div-assign"].iter().enumerate() {
      for (kn, litv, rhs) in [("scalar", "5", "2"), ("matrix", "[1 2 3]", "2"), ("matrix-matrix", "[1 2 3]", "[4 5 6]")] {
        for m in ["", "~"] {
          let stmts = vec![
            Stmt { src: format!("{}a := {}", m, litv), targets: vec!["a".into()], expect: "ok-or-err", what: "define".into() },
            Stmt { src: format!("w := {}", rhs), targets: vec!["w".into()], expect: "ok-or-err", what: "define".into() },
            Stmt { src: format!("r := {}(a, w)", f), targets: if m.is_empty() { vec!["r".into()] } else { vec!["r".into(), "a".into()] }, expect: "ok-or-err", what: "call-native-assign".into() },
            Stmt { src: "v := 1".into(), targets: vec!["v".into()], expect: "ok-or-err", what: "define".into() },
          ];
          let cell = format!("nativecall;fn={};kind={};mutable={}", f, kn, !m.is_empty());
          out.push(Case { id: format!("{};n={}", cell, i), cell, input: json!({"stmts": stmts.iter().map(sj).collect::<Vec<_>>()}) });
        }
      }
    }
    // (2e) every registered native function and the unary / postfix operators applied to VARIABLES: the call statement defines
    // r and nothing else may change (a kernel that writes into its operand's storage shows here); afterwards the operand
    // is mutated and r must keep its value
    let mut calls: Vec<(String, Vec<String>)> = Vec::new();
    for (id, src) in crate::genprog::stdlib_sweep() { if id.ends_with("form=v") || id.ends_with("form=vv") { let f = id.split(';').next().unwrap_or("").to_string(); if f.contains("assign") { continue; } calls.push((id, src.lines().map(|l| l.to_string()).collect())); } }
    for (shape, lit) in [("mat", "[1 2; 3 4]"), ("wide", "[1 2 3; 4 5 6]"), ("tall", "[1 2; 3 4; 5 6]"), ("row", "[1 2 3]"), ("col", "[1; 2; 3]"), ("boolmat", "[true false; false true]"), ("u8mat", "[1u8 2u8; 3u8 4u8]")] {
      for (on, op) in [("transpose", "x'"), ("negate", "-x"), ("not", "!x"), ("transpose-twice", "x''"), ("matmul-transpose", "x ** x'"), ("self-add", "x + x"), ("compare", "x == x")] {
        calls.push((format!("fn=op/{};args={};form=v", on, shape), vec![format!("x := {}", lit), format!("r := {}", op)]));
      }
    }
    for (i, (id, lines)) in calls.iter().enumerate() {
      for m in ["", "~"] {
        let mut stmts: Vec<Stmt> = Vec::new();
        for l in lines.iter() {
          let name = l.split(" := ").next().unwrap_or("").to_string();
          if name == "r" { stmts.push(Stmt { src: l.clone(), targets: vec!["r".into()], expect: "ok-or-err", what: "call-with-variables".into() }); }
          else { stmts.push(Stmt { src: format!("{}{}", m, l), targets: vec![name], expect: "ok-or-err", what: "define".into() }); }
        }
        if !m.is_empty() { stmts.push(Stmt { src: "x[1] = 9".into(), targets: vec!["x".into()], expect: "ok-or-err", what: "mutate-operand-after-call".into() }); stmts.push(Stmt { src: "x = x".into(), targets: vec!["x".into()], expect: "ok-or-err", what: "mutate-operand-after-call".into() }); }
        stmts.push(Stmt { src: "v := 1".into(), targets: vec!["v".into()], expect: "ok-or-err", what: "define".into() });
        let f = id.split(';').next().unwrap_or("");
        let cell = format!("callisolation;{};mutable={}", f, !m.is_empty());
        out.push(Case { id: format!("{};{};n={}", cell, id, i), cell, input: json!({"stmts": stmts.iter().map(sj).collect::<Vec<_>>()}) });
      }
    }
    // (3) random sessions (no alias-creating forms: composites only from constructs that are isolation-clean by themselves)
    let n = if tier == Tier::Quick { 600 } else { 8000 };
    for i in 0..n {
      let id = format!("session;n={}", i);
      let mut rng = Rng::keyed(seed, &id);
      let names = ["a", "b", "c", "d", "e", "f"];
      let mut defined: BTreeMap<String, (usize, bool)> = BTreeMap::new(); // name -> (vk index, mutable)
      let len = 5 + rng.below(21) as usize;
      let mut stmts = Vec::new();
      for _ in 0..len {
        let name = rng.pick(&names).to_string();
        let roll = rng.below(100);
        if !defined.contains_key(&name) && roll < 70 {
          let vi = rng.below(VKS.len() as u64) as usize; let m = rng.chance(2, 3);
          // sometimes define from another variable through a copying form
          let others: Vec<String> = defined.iter().filter(|(_, (v, _))| VKS[*v].name == "scalar" || VKS[*v].name == "matrix").map(|(k, _)| k.clone()).collect();
          if !others.is_empty() && rng.chance(1, 3) {
            let o = rng.pick(&others).clone();
            stmts.push(Stmt { src: format!("{}{} := {} + 0", if m { "~" } else { "" }, name, o), targets: vec![name.clone()], expect: "ok-or-err", what: "define-copy".into() });
            defined.insert(name, (defined[&o].0, m));
          } else {
            stmts.push(Stmt { src: format!("{}{} := {}", if m { "~" } else { "" }, name, VKS[vi].lit), targets: vec![name.clone()], expect: "ok-or-err", what: "define".into() });
            defined.insert(name, (vi, m));
          }
        } else if let Some((vi, m)) = defined.get(&name).cloned() {
          if roll < 15 { stmts.push(Stmt { src: format!("{} := {}", name, VKS[vi].alt), targets: vec![name.clone()], expect: "err", what: "invalid-redefine".into() }); }
          else {
            let (mname, mtext) = rng.pick(VKS[vi].muts);
            stmts.push(Stmt { src: mtext.replace('$', &name), targets: vec![name.clone()], expect: if m { "ok-or-err" } else { "err" }, what: format!("{}{}", if m { "mutate-" } else { "invalid-mutate-immutable-" }, mname) });
          }
        } else {
          stmts.push(Stmt { src: format!("{} = 3", name), targets: vec![name.clone()], expect: "err", what: "invalid-assign-undefined".into() });
        }
      }
      out.push(Case { id, cell: "session".into(), input: json!({"stmts": stmts.iter().map(sj).collect::<Vec<_>>()}) });
    }
    out
  }

  fn run(&self, case: &Case, _flavour: &str) -> Outcome {
    let stmts = case.input["stmts"].as_array().unwrap();
    let mut s = Sess::new();
    let mut model: Snapshot = s.snapshot();
    let mut exercised = 0usize;
    let mut tags = Vec::new();
    let mut last_alias = String::new();
    for (i, st) in stmts.iter().enumerate() {
      let src = st["src"].as_str().unwrap();
      let targets: BTreeSet<String> = st["targets"].as_array().unwrap().iter().map(|t| t.as_str().unwrap().to_string()).collect();
      let expect = st["expect"].as_str().unwrap();
      let what = st["what"].as_str().unwrap();
      if what.starts_with("alias-") { last_alias = what.to_string(); }
      let res = s.eval(src);
      let snap = match guarded(|| s.snapshot()) { Ok(x) => x, Err(p) => return Outcome::violated("snapshot-panic", format!("after `{}`: {}", src, p)) };
      let ctx = || format!("statement {} `{}` ({}) in session [{}]", i + 1, src, what, stmts.iter().take(i + 1).map(|x| x["src"].as_str().unwrap().to_string()).collect::<Vec<_>>().join(" ; "));
      match &res {
        Ev::ParseErr(m) => { if expect == "err" { /* a syntactically rejected invalid statement is also rejected */ } if snap != model { return Outcome::violated("changed-after-error", format!("{}: parse error but symbols changed", ctx())); } tags.push(format!("parse-rejected:{}", what)); continue; }
        Ev::Panic(m) => return Outcome::violated("panic-escaped", format!("{}: {}", ctx(), m)),
        Ev::Err(kind, _) => {
          if snap != model {
            let diff = diff_names(&model, &snap);
            return Outcome::violated(&format!("changed-after-error:{}", what.trim_start_matches("invalid-")), format!("{} failed with {} but bindings changed: {}", ctx(), kind, diff));
          }
          if !model.is_empty() { exercised += 1; }
          tags.push(format!("err:{}:{}", what, kind));
        }
        Ev::Ok(_) => {
          // a definition of a name that IS defined at this point (whatever the earlier statements did) must be rejected
          if expect == "err-if-defined" && targets.iter().any(|t| model.contains_key(t)) { return Outcome::violated(&format!("accepted:{}", what.trim_start_matches("invalid-")), format!("{} succeeded although the name was defined; symbols now {}", ctx(), show_snapshot(&snap))); }
          if expect == "err" { return Outcome::violated(&format!("accepted:{}", what.trim_start_matches("invalid-")), format!("{} succeeded; symbols now {}", ctx(), show_snapshot(&snap))); }
          // every non-target name unchanged
          for (name, val) in model.iter() {
            if targets.contains(name) { continue; }
            match snap.get(name) {
              None => return Outcome::violated("name-vanished", format!("{}: {} disappeared", ctx(), name)),
              Some(v) if v != val => {
                let class = if what.starts_with("mutate-") && !last_alias.is_empty() { format!("bystander-changed:{}", last_alias) } else if what == "call-native-assign" { "bystander-changed:native-assign".to_string() } else if what == "mutate-operand-after-call" { "bystander-changed:call-result-aliases-operand".to_string() } else { "bystander-changed".to_string() };
                return Outcome::violated(&class, format!("{}: {} changed from {} to {}", ctx(), name, val.show(), v.show()));
              }
              _ => {}
            }
          }
          for name in snap.keys() { if !model.contains_key(name) && !targets.contains(name) { return Outcome::violated("name-appeared", format!("{}: unexpected new name {}", ctx(), name)); } }
          if model.len() >= 1 { exercised += 1; }
          tags.push(format!("ok:{}", what));
          model = snap;
        }
      }
    }
    let mut o = if exercised >= 1 { Outcome::held() } else { Outcome::trivial() };
    o.tags = tags; o.tags.sort(); o.tags.dedup();
    o
  }
}

fn diff_names(a: &Snapshot, b: &Snapshot) -> String {
  let mut d = Vec::new();
  for (k, v) in a.iter() { match b.get(k) { None => d.push(format!("{} removed", k)), Some(w) if w != v => d.push(format!("{}: {} -> {}", k, v.show(), w.show())), _ => {} } }
  for k in b.keys() { if !a.contains_key(k) { d.push(format!("{} added = {}", k, b[k].show())); } }
  d.join("; ")
}
