//! C19 Re-evaluation is deterministic, and a no-op for programs without assignments.

use crate::canon::*;
use crate::fw::*;
use crate::genprog::*;
use crate::sess::*;
use serde_json::{json, Value as J};

pub struct C19;

const STEPS: [u64; 4] = [1, 2, 3, 7];

fn run_steps(src: &str, n: u64, single: bool) -> Result<(Snapshot, Snapshot), String> { run_steps_p(src, n, single, false) }
/// the same with the interpreter's profiling switch on (step() has a separate loop for it)
fn run_steps_p(src: &str, n: u64, single: bool, profile: bool) -> Result<(Snapshot, Snapshot), String> {
  let mut s = Sess::new();
  s.intrp.profile = profile;
  match s.eval(src) { Ev::Ok(_) => {}, other => return Err(format!("interpret: {}", other.show())) }
  let s0 = s.snapshot();
  let r = if single { guarded(|| { for _ in 0..n { let _ = s.intrp.step(0, 1); } }) } else { guarded(|| { let _ = s.intrp.step(0, n); }) };
  if let Err(p) = r { return Err(format!("step-panic: {}", p)); }
  Ok((s0, s.snapshot()))
}

fn digest(snaps: &[Snapshot]) -> String {
  // FNV over the serialised canonical snapshots
  let txt = serde_json::to_string(snaps).unwrap_or_default();
  let mut h: u64 = 0xcbf29ce484222325; for b in txt.bytes() { h ^= b as u64; h = h.wrapping_mul(0x100000001b3); }
  format!("{:016x}", h)
}

impl Prop for C19 {
  fn id(&self) -> &'static str { "C19" }
  fn rule(&self) -> String { "programs from the typed generator (construct sweep + composites of 1-14 statements; with and without assignment / op-assignment statements; operators, ranges, indexing, concatenation, conversions, sets, tables, records, stdlib calls, comprehensions) x step counts {1,2,3,7}: (a) two independent interpreters in one process, (b) one step(0,n) against n single steps, (c) the digests of all snapshots must agree across separate worker processes (each has different hash seeds), (d) for assignment-free programs every snapshot equals the one after the first evaluation, and (e) the same program compiled, loaded and run in a fresh interpreter keeps every variable when its loaded plan is stepped twice. Non-trivial = the program interpreted and its plan was stepped".into() }
  fn assumptions(&self) -> Vec<String> { vec!["snapshots are canonical deep copies of Interpreter::symbols() without the built-in ans".into()] }
  fn floor(&self, tier: Tier) -> usize { if tier == Tier::Quick { 500 } else { 5000 } }
  fn replicas(&self, tier: Tier) -> usize { if tier == Tier::Quick { 2 } else { 8 } }

  fn gen(&self, tier: Tier, seed: u64) -> Vec<Case> {
    let mut out = Vec::new();
    let mut rng = Rng::keyed(seed, "c19sweep");
    for (i, p) in construct_sweep(&mut rng).into_iter().enumerate() {
      let cell = format!("mutates={};stratum=single", p.mutates);
      out.push(Case { id: format!("{};n={};{}", cell, i, p.constructs()), cell, input: json!({"src": p.text(), "mutates": p.mutates}) });
    }
    // the static corpus harvested from the repository's tests: every stdlib function and statement form the tests use; whether a
    // program assigns is read off its syntax tree at run time (mutates = null)
    for (name, src) in crate::corpus::test_programs() {
      let fam = name.split('_').take(3).collect::<Vec<_>>().join("_");
      out.push(Case { id: format!("corpus;name={}", name), cell: format!("stratum=corpus;family={}", fam), input: json!({"src": src, "mutates": J::Null}) });
    }
    // every registered native function x argument shapes (assignment-free by construction)
    // (the *-assign functions are the op-assignment operators under their function names: calling one is an assignment)
    for (id, src) in stdlib_sweep().into_iter() {
      // quick: the variable-argument forms only (a fixed half of the sweep, independent of the seed)
      if tier == Tier::Quick && (id.ends_with("form=l") || id.ends_with("form=ll")) { continue; }
      let f = id.split(';').next().unwrap_or("").to_string();
      out.push(Case { id: format!("stdlib;{}", id), cell: format!("stratum=stdlib;{}", f), input: json!({"src": src, "mutates": f.contains("assign")}) });
    }
    // every index form of C03 (1-D and 2-D: scalars, index vectors, ranges, ':', logical masks) read in an assignment-free
    // program, the subscripts written inline or held in variables: access kernels keep their output between evaluations
    {
      use crate::props::c03::{gen_sel, index_text, index_matrix, FORMS1, FORMS2, Sel};
      let kinds: Vec<&str> = if tier == Tier::Quick { vec![["f64", "u8", "bool", "string", "i64", "u64"][(seed % 6) as usize]] } else { vec!["f64", "u8", "bool", "string", "i64", "u64", "f32", "r64"] };
      for k in kinds {
        for (r, c) in [(3usize, 2usize), (2, 3), (4, 4), (1, 5), (5, 1)] {
          if tier == Tier::Quick && (r == 1 || c == 1) { continue; }
          let mut formsets: Vec<Vec<&str>> = FORMS1.iter().map(|f| vec![*f]).collect();
          for a in FORMS2.iter() { for b in FORMS2.iter() { formsets.push(vec![*a, *b]); } }
          for forms in formsets {
            let fname = forms.join(",");
            let mut rng = Rng::keyed(seed, &format!("c19ix;{};{}x{};{}", k, r, c, fname));
            let x = index_matrix(k, r, c, rng.below(5) as i64);
            let Some(xl) = lit(&x) else { continue };
            let extents: Vec<usize> = if forms.len() == 1 { vec![r * c] } else { vec![r, c] };
            let mut sels: Vec<Sel> = forms.iter().zip(extents.iter()).map(|(f, e)| gen_sel(f, *e, &mut rng)).collect();
            // masks whose true entries are not the leading positions
            for (sel, e) in sels.iter_mut().zip(extents.iter()) { if let Sel::M(m) = sel { if *e >= 2 && m.iter().any(|b| *b) { m[0] = false; let l = m.len(); m[l - 1] = true; } } }
            for via in ["inline", "vars"] {
              let src = if via == "inline" { format!("x := {}\ny := x{}", xl, index_text(&sels, "f64")) } else {
                let mut defs = String::new(); let mut parts = Vec::new();
                for (i, sl) in sels.iter().enumerate() { let t = sl.text("f64"); if t == ":" { parts.push(t); } else { defs.push_str(&format!("ix{} := {}\n", i, t)); parts.push(format!("ix{}", i)); } }
                format!("x := {}\n{}y := x[{}]", xl, defs, parts.join(","))
              };
              out.push(Case { id: format!("index;kind={};shape={}x{};form={};via={}", k, r, c, fname, via), cell: format!("stratum=index;form={};via={}", fname, via), input: json!({"src": src, "mutates": false}) });
            }
          }
        }
      }
    }
    let n = if tier == Tier::Quick { 400 } else { 8000 };
    for i in 0..n {
      let mut rng = Rng::keyed(seed, &format!("c19comp{}", i));
      let len = 1 + rng.below(14) as usize;
      let mutation = rng.chance(1, 2);
      let p = random_program_mode(&mut rng, len, rng_general(i), mutation, false);
      let cell = format!("mutates={};stratum=composite", p.mutates);
      out.push(Case { id: format!("{};n={}", cell, i), cell, input: json!({"src": p.text(), "mutates": p.mutates}) });
    }
    out
  }

  /// Miri stage: the kernels this property's constructs dispatch to, driven directly (crate /verif/miri) under the undefined-behaviour interpreter
  fn post_stage(&self, tier: Tier, seed: u64, _self_exe: &str) -> Vec<(Case, Outcome)> { crate::fw::miri_stage("C19", tier, seed, if tier == Tier::Quick { 3 } else { 2 }) }

  fn run(&self, case: &Case, _flavour: &str) -> Outcome {
    if case.cell.starts_with("stage=miri") { return crate::fw::miri_run_one(case); }
    let src = case.input["src"].as_str().unwrap();
    let mutates = match case.input["mutates"].as_bool() {
      Some(b) => b,
      None => match guarded(|| mech_syntax::parser::parse(src)) { Ok(Ok(t)) => { let j = serde_json::to_string(&t).unwrap_or_default(); j.contains("\"VariableAssign\"") || j.contains("\"OpAssign\"") || j.contains("\"FsmDeclare\"") && false } _ => return Outcome::trivial().tag("not-parsable") },
    };
    let mut snaps: Vec<Snapshot> = Vec::new();
    // a request for ZERO steps changes nothing, through the interpreter and through the REPL's step command; the REPL command with a
    // count, and without one (= one step), takes the steps Interpreter::step takes
    // (every program that assigns, one in four of the others)
    if mutates || case.id.bytes().fold(0u32, |h, b| h.wrapping_mul(31).wrapping_add(b as u32)) % 4 == 0 {
      match run_steps(src, 0, false) { Ok((b0, a0)) => if b0 != a0 { return Outcome::violated("zero-steps-changed", format!("program\n{}\nstep(0,0) changed {} into {}", src, show_snapshot(&b0), show_snapshot(&a0))); }, Err(e) => { return if e.starts_with("interpret") { Outcome::trivial().tag("not-interpretable") } else { Outcome::violated("step-panic", format!("program\n{}\nstep(0,0): {}", src, e)) } } }
      for (cmd, n) in [(":step 0", 0u64), (":step ", 1), (":step 1", 1), (":step 2", 2), (":step 3", 3)] {
        let direct = match run_steps(src, n, false) { Ok(x) => x, Err(_) => break };
        let mut s = Sess::new();
        if !s.eval(src).is_ok() { break; }
        let mut repl = mech::MechRepl::from(std::mem::replace(&mut s.intrp, mech_interpreter::Interpreter::new(0)));
        let parsed = mech_syntax::parse_repl_command(cmd);
        let Ok((_, rc)) = parsed else { continue };
        // (a spelling the command grammar does not read as the step command is not a step request)
        if !format!("{:?}", rc).starts_with("Step") { continue; }
        let r = guarded(|| repl.execute_repl_command(rc));
        if let Err(p) = r { return Outcome::violated("step-panic", format!("program\n{}\nREPL `{}`: {}", src, cmd, p)); }
        let active = repl.active;
        let Some(intrp) = repl.interpreters.remove(&active) else { break };
        let after = (Sess { intrp }).snapshot();
        if after != direct.1 { return Outcome::violated("repl-step-differs", format!("program\n{}\nREPL `{}` leaves {} but step(0,{}) leaves {}", src, cmd, show_snapshot(&after), n, show_snapshot(&direct.1))); }
      }
    }
    // the transition limit of state machines (max_steps) has nothing to do with plan re-evaluation: with a small limit the same steps are taken
    if !src.contains('#') && mutates {
      let mut s = Sess::new(); s.intrp.max_steps = 2;
      if s.eval(src).is_ok() {
        let r = guarded(|| { let _ = s.intrp.step(0, 5); });
        if r.is_ok() { if let Ok(d) = run_steps(src, 5, true) { let after = s.snapshot(); if after != d.1 { return Outcome::violated("n-steps-differ-from-single-steps", format!("program\n{}\nwith max_steps = 2, step(0,5) gives {} but 5 single steps give {}", src, show_snapshot(&after), show_snapshot(&d.1))); } } }
      }
    }
    for (i, n) in STEPS.iter().enumerate() {
      let a = match run_steps(src, *n, false) { Ok(x) => x, Err(e) => { return if e.starts_with("interpret") { Outcome::trivial().tag("not-interpretable") } else { Outcome::violated("step-panic", format!("program\n{}\nstep(0,{}): {}", src, n, e)) } } };
      let a2 = match run_steps(src, *n, false) { Ok(x) => x, Err(e) => return Outcome::violated("nondeterministic", format!("second run failed: {}", e)) };
      let b = match run_steps(src, *n, true) { Ok(x) => x, Err(e) => return Outcome::violated("step-panic", format!("program\n{}\n{} single steps: {}", src, n, e)) };
      if a.0 != a2.0 || a.1 != a2.1 { return Outcome::violated("nondeterministic", format!("program\n{}\ntwo interpreters in one process disagree after step(0,{}): {} vs {}", src, n, show_snapshot(&a.1), show_snapshot(&a2.1))); }
      // a profiled interpreter takes the same steps
      if i < 2 { match run_steps_p(src, *n, false, true) { Ok(pr) => if pr.1 != a.1 { return Outcome::violated("profiled-steps-differ", format!("program\n{}\nstep(0,{}) gives {} but with profiling on {}", src, n, show_snapshot(&a.1), show_snapshot(&pr.1))); }, Err(e) => return Outcome::violated("step-panic", format!("program\n{}\nprofiled step(0,{}): {}", src, n, e)) } }
      if a.1 != b.1 { return Outcome::violated("n-steps-differ-from-single-steps", format!("program\n{}\nstep(0,{}) gives {} but {} single steps give {}", src, n, show_snapshot(&a.1), n, show_snapshot(&b.1))); }
      if !mutates && a.1 != a.0 { let d: Vec<String> = a.0.iter().filter(|(k, v)| a.1.get(*k) != Some(*v)).map(|(k, v)| format!("{}: {} -> {}", k, v.show(), a.1.get(k).map(|x| x.show()).unwrap_or_default())).collect(); return Outcome::violated("step-changed-assignment-free-program", format!("program\n{}\nafter step(0,{}): {}", src, n, d.join("; "))); }
      if i == 0 { snaps.push(a.0.clone()); }
      snaps.push(a.1);
    }
    // the same program as bytecode in a fresh interpreter: re-evaluating the loaded plan must leave every variable as the run
    // left it (assignment-free programs only; programs whose bytecode does not load or run are skipped)
    let mut bc_tag = "bytecode-twin:skipped";
    if !mutates {
      if let Ok(Ok(tree)) = guarded(|| mech_syntax::parser::parse(src)) {
        let mut a = mech_interpreter::Interpreter::new(0);
        if let Ok(Ok(_)) = guarded(|| a.interpret(&tree)) {
          if let Ok(Ok(bytes)) = guarded(|| a.compile()) {
            if let Ok(Ok(prog)) = guarded(|| mech_core::ParsedProgram::from_bytes(&bytes)) {
              // running and stepping a loaded plan can crash the process for constructs outside the class C06 promises to
              // run; a crash or an error is recorded as an observation, only a silently changed variable is a verdict. The
              // twin runs in a forked child: exit 0 = variables unchanged by step(0,2), 1 = changed, 2 = run/step error,
              // 3 = panic, 4 = bytecode does not run
              let pid = unsafe { libc::fork() };
              if pid == 0 {
                let mut b = Sess::new();
                let code = match guarded(|| b.intrp.run_program(&prog)) {
                  Ok(Ok(_)) => match guarded(|| b.snapshot()) {
                    Ok(before) => match guarded(|| b.intrp.step(0, 2)) { Ok(Ok(_)) => match guarded(|| b.snapshot()) { Ok(after) => if after == before { 0 } else { 1 }, Err(_) => 3 }, Ok(Err(_)) => 2, Err(_) => 3 },
                    Err(_) => 3,
                  },
                  Ok(Err(_)) => 4,
                  Err(_) => 3,
                };
                unsafe { libc::_exit(code) };
              } else if pid > 0 {
                let mut status: libc::c_int = 0;
                unsafe { libc::waitpid(pid, &mut status, 0); }
                if libc::WIFEXITED(status) {
                  match libc::WEXITSTATUS(status) {
                    0 => bc_tag = "bytecode-twin:same",
                    1 => return Outcome::violated("step-changed-loaded-bytecode", format!("program\n{}\nrun from its bytecode in a fresh interpreter, then step(0,2): a variable changed although the program has no assignment", src)),
                    2 => bc_tag = "bytecode-twin:step-error",
                    4 => bc_tag = "bytecode-twin:does-not-run",
                    _ => bc_tag = "bytecode-twin:panic",
                  }
                } else { bc_tag = "bytecode-twin:crash"; }
              }
            }
          }
        }
      }
    }
    let mut o = Outcome::held().tag(bc_tag);
    o.digest = Some(digest(&snaps));
    o
  }
}

fn rng_general(i: usize) -> bool { i % 3 == 0 }
