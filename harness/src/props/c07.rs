//! C07 Bytecode files round-trip exactly and corrupted files are rejected.

use crate::alloc;
use crate::canon::*;
use crate::fw::*;
use crate::genprog::*;
use mech_core::*;
use mech_interpreter::*;
use mech_syntax::parser;
use serde_json::{json, Value as J};

pub struct C07;

const FAMILIES: [&str; 8] = ["roundtrip", "truncate", "bitflip", "burst", "crcfix-header", "crcfix-body", "crcfix-splice", "random"];
const HEADER_FIELDS: [(&str, usize, usize); 22] = [("magic", 0, 4), ("version", 4, 1), ("mech_ver", 5, 2), ("flags", 7, 2), ("reg_count", 9, 4), ("instr_count", 13, 4), ("feature_count", 17, 4), ("feature_off", 21, 8), ("types_count", 29, 4), ("types_off", 33, 8), ("const_count", 41, 4), ("const_tbl_off", 45, 8), ("const_tbl_len", 53, 8), ("const_blob_off", 61, 8), ("const_blob_len", 69, 8), ("symbols_len", 77, 8), ("symbols_off", 85, 8), ("instr_off", 93, 8), ("instr_len", 101, 8), ("dict_off", 109, 8), ("dict_len", 117, 8), ("reserved", 125, 4)];

fn compile_src(src: &str) -> Option<(Vec<u8>, Interpreter)> {
  let tree = guarded(|| parser::parse(src)).ok()?.ok()?;
  let mut a = Interpreter::new(0);
  guarded(|| a.interpret(&tree)).ok()?.ok()?;
  let b = guarded(|| a.compile()).ok()?.ok()?;
  Some((b, a))
}

fn fix_crc(b: &mut Vec<u8>) { if b.len() >= 4 { let n = b.len() - 4; let c = crc32fast::hash(&b[..n]); b[n..].copy_from_slice(&c.to_le_bytes()); } }

struct Obs { accepted: bool, panic: Option<String>, max_req: usize, peak: usize, err: Option<String> }

/// the monitored loader call: from_bytes, then (if accepted) decode_const_entries and to_bytes, all under the allocation monitor
fn load(bytes: &[u8]) -> Obs {
  alloc::begin(1 << 30);
  let r = guarded(|| {
    match ParsedProgram::from_bytes(bytes) {
      Ok(p) => { let d = p.decode_const_entries(); let t = p.to_bytes(); (true, d.err().map(|e| e.kind_name()).or(t.err().map(|e| e.kind_name()))) }
      Err(e) => (false, Some(e.kind_name())),
    }
  });
  let (max_req, peak) = alloc::end();
  match r { Ok((acc, err)) => Obs { accepted: acc, panic: None, max_req, peak, err }, Err(p) => Obs { accepted: false, panic: Some(p), max_req, peak, err: None } }
}

/// the same file through the path-based entry point (load_program_from_file), written to a scratch file of this worker
fn load_file(bytes: &[u8]) -> Obs {
  let path = format!("{}/work/c07-{}.mecb", crate::corpus::verif_dir(), std::process::id());
  if std::fs::write(&path, bytes).is_err() { return Obs { accepted: false, panic: None, max_req: 0, peak: 0, err: Some("scratch-write".into()) }; }
  alloc::begin(1 << 30);
  let r = guarded(|| match mech_core::load_program_from_file(&path) { Ok(p) => { let d = p.decode_const_entries(); (true, d.err().map(|e| e.kind_name())) } Err(e) => (false, Some(e.kind_name())) });
  let (max_req, peak) = alloc::end();
  let _ = std::fs::remove_file(&path);
  match r { Ok((acc, err)) => Obs { accepted: acc, panic: None, max_req, peak, err }, Err(p) => Obs { accepted: false, panic: Some(p), max_req, peak, err: None } }
}

/// literal forms for the constant-value family (static; every constant kind the compiler encodes, with the shapes and lengths encoders distinguish)
fn const_literals() -> Vec<String> {
  let mut v: Vec<String> = Vec::new();
  for s in ["\"\"", "\"a\"", "\"é✓\"", "\"a b c d e f g h i j k l m n o p q r s t u v w x y z 0123456789\"", "true", "false", "1", "-2.5", "7u8", "300u16", "70000u32", "5000000000u64", "7<i8>", "-300<i16>", "-70000<i32>", "-5000000000<i64>", "2.5<f32>", "1/2", "-3/4", "1+2i", "3.5-1.5i", ":A", "_"] { v.push(s.to_string()); }
  let kinds: [(&str, fn(usize) -> String); 8] = [("f64", |i| format!("{}.5", i)), ("u8", |i| format!("{}u8", i)), ("i64", |i| format!("{}<i64>", i)), ("bool", |i| (if i % 2 == 0 { "true" } else { "false" }).to_string()), ("string", |i| format!("\"s{}\"", i)), ("u16", |i| format!("{}u16", 300 + i)), ("f32", |i| format!("{}.25<f32>", i)), ("i16", |i| format!("{}<i16>", i))];
  for (_, f) in kinds.iter() { for (r, c) in [(1, 1), (1, 2), (2, 1), (1, 3), (3, 1), (2, 2), (2, 3), (3, 2), (3, 3), (1, 5), (5, 1), (2, 5), (4, 4)] {
    let rows: Vec<String> = (0..r).map(|i| (0..c).map(|j| f(1 + i * c + j)).collect::<Vec<_>>().join(" ")).collect();
    v.push(format!("[{}]", rows.join("; ")));
  } }
  // tables r x c with mixed column kinds
  let cols = [("a", "f64"), ("b", "u8"), ("c", "string"), ("d", "bool")];
  for r in 1..=4usize { for c in 1..=4usize {
    let head: Vec<String> = cols[..c].iter().map(|(n, k)| format!("{}<{}>", n, k)).collect();
    let rows: Vec<String> = (0..r).map(|i| cols[..c].iter().enumerate().map(|(j, (_, k))| match *k { "f64" => format!("{}.5", i + j), "u8" => format!("{}", 10 * i + j), "string" => format!("\"r{}\"", i), _ => (if i % 2 == 0 { "true" } else { "false" }).to_string() }).collect::<Vec<_>>().join(" ")).collect();
    v.push(format!("|{}| {} |", head.join(" "), rows.join(" | ")));
  } }
  // boundary and zero elements inside containers, containers of rationals / complex numbers, tables with such columns
  for s in ["[0/1 1/2]", "[1/2; 0/5; 3/4]", "{1/2, 0/2}", "[0 0 0]", "[0u8 255u8]", "[-128<i8> 127<i8> 0<i8>]", "[0u64 18446744073709551615u64]", "[-9223372036854775807<i64> 0<i64>]", "[0.0 -0.0 1.5]", "{1+2i, 3+4i}", "{0+0i, 1+1i}", "[0+0i 2+3i]", "{0, 1}", "{0u8, 255u8}",
            "|a<r64> b<u8>| 1/2 1 | 0/3 2 |", "|a<c64> b<f64>| 1+2i 1 | 3+4i 2 |", "|a<string> b<bool>| \"\" true | \"é\" false |", "|a<i8> b<u64>| -1 1 | -128 2 |", "|a<f32> b<i16>| 1.5 -1 | 2.5 300 |",
            "{\"\", \"a\"}", "{true, false}", "{-1.5, 0.0, 1.5}", "{1u64, 2u64, 18446744073709551615u64}"] { v.push(s.to_string()); }
  for s in ["{1, 2, 3}", "{\"a\", \"b\"}", "{}", "{1u8, 2u8}", "{true}", "{1/2, 1/3}", "(1, \"a\", true)", "(1, (2, 3))", "(1u8, 2.5)", "{a: 1, b: \"x\"}", "{a: [1 2 3], b: true}", "{\"a\": 1, \"b\": 2}", "{1: \"x\"}", "[\"\" \"a\"]", "[1/2 3/4]", "[1+2i 3+4i]", "{(1, 2), (3, 4)}", "{{1, 2}, {3}}", "[:A :B]"] { v.push(s.to_string()); }
  v
}

fn panic_site(p: &str) -> String {
  // "message @ file:line" -> file basename:line (value-free)
  let loc = p.rsplit(" @ ").next().unwrap_or("");
  let base = loc.rsplit('/').next().unwrap_or(loc);
  if base.is_empty() { "unknown".into() } else { base.to_string() }
}

fn hostile(len: usize, width: usize) -> Vec<u64> {
  let l = len as u64;
  let mut v = vec![0u64, 1, l.saturating_sub(1), l, l + 1, 1 << 31, (1u64 << 32) - 1, 1 << 63, u64::MAX, l.saturating_sub(4), 12, 13, 32];
  if width < 8 { let m = if width == 4 { u32::MAX as u64 } else if width == 2 { 0xffff } else { 0xff }; for x in v.iter_mut() { *x &= m; } }
  v.sort(); v.dedup(); v
}

fn put(b: &mut [u8], off: usize, width: usize, val: u64) { for i in 0..width { if off + i < b.len() { b[off + i] = (val >> (8 * i)) as u8; } } }

impl Prop for C07 {
  fn id(&self) -> &'static str { "C07" }
  fn rule(&self) -> String { "corpus = bytecode emitted for the C06 program generators (every constant kind and opcode the compiler emits); per file and family: roundtrip (to_bytes(from_bytes(b)) = b, decoded header/constants/instructions = what CompileCtx holds, every decoded constant value re-encodes to the bytes it was decoded from), EVERY truncation length, EVERY single-bit flip, bursts of 2..32 bits at every / sampled start bit, structural mutations with the CRC recomputed (every header field x hostile values {0,1,len-1,len,len+1,2^31,2^32-1,2^63,2^64-1,...}, hostile words over the type / constant-table / blob / instruction regions, section offsets pointing into other sections, spliced files), and random byte strings with and without the MECH magic. A counting global allocator records the largest single request per load. Non-trivial = the family produced at least one mutated file that reached the loader".into() }
  fn assumptions(&self) -> Vec<String> { vec![
    "allocation bound: largest single request <= 64 MiB + 64 x file length (files are < 64 KiB); requests above 1 GiB are refused by the monitor and observed as an abort".into(),
    "hangs are observed by the per-case watchdog and reported as inconclusive (wall-clock is never a verdict)".into(),
  ] }
  fn floor(&self, tier: Tier) -> usize { if tier == Tier::Quick { 300 } else { 3000 } }
  fn watchdog(&self, _tier: Tier) -> std::time::Duration { std::time::Duration::from_secs(240) }

  fn gen(&self, tier: Tier, seed: u64) -> Vec<Case> {
    let progs = super::c06::gen_programs(tier, seed, 250, 2500);
    let mut out = Vec::new();
    // constant values: one literal definition per program; the value the interpreter holds for x must be among the decoded constants
    for (i, l) in const_literals().iter().enumerate() { out.push(Case { id: format!("family=constvalue;lit={}", i), cell: "family=constvalue".into(), input: json!({"src": format!("x := {}", l), "family": "constvalue", "salt": i}) }); }
    let stride = if tier == Tier::Quick { 8 } else { 4 };
    for (i, (id, p)) in progs.iter().enumerate() {
      for fam in FAMILIES.iter() {
        // the damage families run on a sample of the single-construct files; the round trip runs on every file
        if *fam != "roundtrip" && id.starts_with("single") && i % stride != 0 { continue; }
        // quick: the exhaustive families on every 3rd file only
        if tier == Tier::Quick && matches!(*fam, "bitflip" | "burst") && i % 3 != 0 { continue; }
        out.push(Case { id: format!("family={};prog={}", fam, id), cell: format!("family={}", fam), input: json!({"src": p.text(), "family": fam, "salt": i}) });
      }
    }
    out
  }

  fn run(&self, case: &Case, _flavour: &str) -> Outcome {
    let src = case.input["src"].as_str().unwrap();
    let fam = case.input["family"].as_str().unwrap();
    let salt = case.input["salt"].as_u64().unwrap();
    let Some((bytes, a)) = compile_src(src) else { return Outcome::trivial().tag("not-compilable") };
    let n = bytes.len();
    let bound = (64usize << 20) + 64 * n;
    let mut loads = 0usize; let mut maxreq = 0usize;
    let mut rng = Rng::keyed(salt, fam);
    // judge one mutated file; `must_reject` for damage without CRC repair
    let mut judge = |b: &[u8], must_reject: bool, what: &str| -> Option<Outcome> {
      let t0 = std::time::Instant::now();
      let o = load(b);
      if std::env::var("VERIF_DEBUG").is_ok() && t0.elapsed().as_millis() > 500 { eprintln!("slow load {} ms: {} hex {}", t0.elapsed().as_millis(), what, b.iter().map(|x| format!("{:02x}", x)).collect::<String>()); }
      loads += 1; if o.max_req > maxreq { maxreq = o.max_req; }
      let witness = || -> String { format!("{} (file of {} bytes from program `{}`); mutated bytes hex: {}", what, b.len(), src.replace('\n', " ; "), b.iter().take(160).map(|x| format!("{:02x}", x)).collect::<String>()) };
      if let Some(p) = &o.panic { return Some(Outcome::violated(&format!("loader-panic:{}", panic_site(p)), format!("{} -> panic {}", witness(), p))); }
      if o.max_req > bound.max(64 << 20) + 64 * b.len() { return Some(Outcome::violated("unbounded-allocation", format!("{} -> single allocation request of {} bytes", witness(), o.max_req))); }
      if must_reject && o.accepted { return Some(Outcome::violated(&format!("damaged-file-accepted:{}", fam), witness())); }
      // the path-based loader sees the same bytes: every 8th file of the structural families, every 64th of the exhaustive ones
      if loads % (if matches!(fam, "bitflip" | "burst" | "truncate") { 64 } else { 8 }) == 1 {
        let f = load_file(b);
        if f.err.as_deref() == Some("scratch-write") { return None; }
        if let Some(p) = &f.panic { return Some(Outcome::violated(&format!("file-loader-panic:{}", panic_site(p)), format!("load_program_from_file: {} -> panic {}", witness(), p))); }
        if f.max_req > bound.max(64 << 20) + 64 * b.len() { return Some(Outcome::violated("unbounded-allocation", format!("load_program_from_file: {} -> single allocation request of {} bytes", witness(), f.max_req))); }
        if must_reject && f.accepted { return Some(Outcome::violated(&format!("damaged-file-accepted-by-file-loader:{}", fam), witness())); }
        if f.accepted != o.accepted { return Some(Outcome::violated("loaders-disagree", format!("{}: from_bytes {} but load_program_from_file {}", witness(), if o.accepted { "accepts" } else { "rejects" }, if f.accepted { "accepts" } else { "rejects" }))); }
      }
      None
    };
    match fam {
      "constvalue" => {
        let want = match (crate::sess::Sess { intrp: a }).get("x") { Some(v) => v, None => return Outcome::trivial().tag("constvalue:no-symbol") };
        let p = match guarded(|| ParsedProgram::from_bytes(&bytes)) { Ok(Ok(p)) => p, Ok(Err(e)) => return Outcome::violated("emitted-file-rejected", format!("`{}`: {}", src, e.kind_name())), Err(p) => return Outcome::violated(&format!("loader-panic:{}", panic_site(&p)), p) };
        let vals = match guarded(|| p.decode_const_entries()) { Ok(Ok(v)) => v, Ok(Err(e)) => return Outcome::violated(&format!("emitted-constants-rejected:{}:{}", e.kind_name(), match &want { CVal::Tuple(_) => "tuple".to_string(), CVal::Record(_) => "record".to_string(), CVal::Atom(_) => "atom".to_string(), CVal::Map(..) => "map".to_string(), w => w.kind_str().chars().filter(|c| !c.is_ascii_digit()).collect::<String>() }), format!("decode_const_entries fails on the emitted file of `{}`", src)), Err(pn) => return Outcome::violated(&format!("loader-panic:{}", panic_site(&pn)), format!("decode_const_entries on the emitted file of `{}`: {}", src, pn)) };
        let got: Vec<CVal> = vals.iter().map(|v| canon(v)).collect();
        if !got.iter().any(|g| *g == want) { return Outcome::violated(&format!("decoded-constant-differs:{}", want.kind_str().chars().filter(|c| !c.is_ascii_digit()).collect::<String>()), format!("`{}`: the interpreter holds {} but the decoded constants are {}", src, want.show(), got.iter().map(|g| g.show()).collect::<Vec<_>>().join(" ; "))); }
        return Outcome::held().tag(format!("constvalue:{}", want.kind_str().chars().filter(|c| !c.is_ascii_digit()).collect::<String>()));
      }
      "roundtrip" => {
        let p = match guarded(|| ParsedProgram::from_bytes(&bytes)) { Ok(Ok(p)) => p, Ok(Err(e)) => return Outcome::violated("emitted-file-rejected", format!("`{}`: {}", src, e.kind_name())), Err(p) => return Outcome::violated(&format!("loader-panic:{}", panic_site(&p)), p) };
        let back = match guarded(|| p.to_bytes()) { Ok(Ok(b)) => b, Ok(Err(e)) => return Outcome::violated("reencode-error", e.kind_name()), Err(pn) => return Outcome::violated(&format!("encoder-panic:{}", panic_site(&pn)), pn) };
        if back != bytes { let d = back.iter().zip(bytes.iter()).position(|(x, y)| x != y).unwrap_or(back.len().min(bytes.len())); return Outcome::violated("roundtrip-bytes-differ", format!("program `{}`: re-encoded file differs at byte {} (lengths {} vs {})", src.replace('\n', " ; "), d, back.len(), bytes.len())); }
        if let Some(ctx) = &a.context {
          if p.const_entries.len() != ctx.const_entries.len() || p.const_blob != ctx.const_blob || p.instrs.len() != ctx.instrs.len() || p.header.reg_count != ctx.next_reg { return Outcome::violated("decoded-differs-from-compiled", format!("program `{}`: consts {}/{} blob {}/{} instrs {}/{} regs {}/{}", src.replace('\n', " ; "), p.const_entries.len(), ctx.const_entries.len(), p.const_blob.len(), ctx.const_blob.len(), p.instrs.len(), ctx.instrs.len(), p.header.reg_count, ctx.next_reg)); }
          for (d, e) in p.instrs.iter().zip(ctx.instrs.iter()) {
            let same = match (d, e) {
              (DecodedInstr::ConstLoad { dst, const_id }, EncodedInstr::ConstLoad { dst: d2, const_id: c2 }) => dst == d2 && const_id == c2,
              (DecodedInstr::NullOp { fxn_id, dst }, EncodedInstr::NullOp { fxn_id: f2, dst: d2 }) => fxn_id == f2 && dst == d2,
              (DecodedInstr::UnOp { fxn_id, dst, src }, EncodedInstr::UnOp { fxn_id: f2, dst: d2, src: s2 }) => fxn_id == f2 && dst == d2 && src == s2,
              (DecodedInstr::BinOp { fxn_id, dst, lhs, rhs }, EncodedInstr::BinOp { fxn_id: f2, dst: d2, lhs: l2, rhs: r2 }) => fxn_id == f2 && dst == d2 && lhs == l2 && rhs == r2,
              (DecodedInstr::TernOp { fxn_id, dst, a, b, c }, EncodedInstr::TernOp { fxn_id: f2, dst: d2, a: a2, b: b2, c: c2 }) => fxn_id == f2 && dst == d2 && a == a2 && b == b2 && c == c2,
              (DecodedInstr::QuadOp { fxn_id, dst, a, b, c, d }, EncodedInstr::QuadOp { fxn_id: f2, dst: d2, a: a2, b: b2, c: c2, d: dd2 }) => fxn_id == f2 && dst == d2 && a == a2 && b == b2 && c == c2 && d == dd2,
              (DecodedInstr::VarArg { fxn_id, dst, args }, EncodedInstr::VarArg { fxn_id: f2, dst: d2, args: a2 }) => fxn_id == f2 && dst == d2 && args == a2,
              (DecodedInstr::Ret { src }, EncodedInstr::Ret { src: s2 }) => src == s2,
              _ => false,
            };
            if !same { return Outcome::violated("decoded-differs-from-compiled", format!("program `{}`: instruction {:?} decoded from {:?}", src.replace('\n', " ; "), d, e)); }
          }
        }
        // decoded constants must decode, and every decoded constant re-encodes to exactly the bytes it was decoded from
        let vals = match guarded(|| p.decode_const_entries()) { Ok(Ok(v)) => v, Ok(Err(e)) => return Outcome::violated(&format!("emitted-constants-rejected:{}:{}", e.kind_name(), composite_kind(&a)), format!("decode_const_entries fails on the emitted file of `{}`", src.replace('\n', " ; "))), Err(pn) => return Outcome::violated(&format!("loader-panic:{}", panic_site(&pn)), format!("decode_const_entries on the emitted file of `{}`: {}", src.replace('\n', " ; "), pn)) };
        if vals.len() != p.const_entries.len() { return Outcome::violated("decoded-differs-from-compiled", "constant count".into()); }
        let mut reenc = 0usize;
        for (ce, v) in p.const_entries.iter().zip(vals.iter()) {
          let orig = &p.const_blob[ce.offset as usize..(ce.offset + ce.length) as usize];
          let mut c2 = CompileCtx::new();
          match guarded(|| v.compile_const(&mut c2)) {
            Ok(Ok(_)) => {
              let Some(e2) = c2.const_entries.last() else { continue };
              let again = &c2.const_blob[e2.offset as usize..(e2.offset + e2.length) as usize];
              if again != orig { return Outcome::violated("constant-reencode-differs", format!("program `{}`: constant {} decodes to {} which encodes to {} bytes {:02x?}, the file holds {} bytes {:02x?}", src.replace('\n', " ; "), reenc, canon(v).show(), again.len(), &again[..again.len().min(48)], orig.len(), &orig[..orig.len().min(48)])); }
              reenc += 1;
            }
            _ => {}
          }
        }
        if reenc == 0 && !vals.is_empty() { return Outcome::inconclusive("no-constant-reencoded", src.to_string()); }
        return Outcome::held().num("file_bytes", n as f64);
      }
      "truncate" => { for k in 0..n { if let Some(o) = judge(&bytes[..k], true, &format!("truncated to {} bytes", k)) { return o; } } }
      "bitflip" => { let mut b = bytes.clone(); for bit in 0..n * 8 { b[bit / 8] ^= 1 << (bit % 8); if let Some(o) = judge(&b, true, &format!("bit {} flipped", bit)) { return o; } b[bit / 8] ^= 1 << (bit % 8); } }
      "burst" => {
        let nb = n * 8;
        for len in [2usize, 3, 8, 16, 31, 32] {
          let starts: Vec<usize> = if nb * 6 <= 60000 { (0..nb - len).collect() } else { (0..4000).map(|_| rng.below((nb - len) as u64) as usize).collect() };
          for st in starts {
            let mut b = bytes.clone();
            // a burst: first and last bit flipped, inner bits random
            for i in 0..len { let bit = st + i; if i == 0 || i == len - 1 || rng.chance(1, 2) { b[bit / 8] ^= 1 << (bit % 8); } }
            if let Some(o) = judge(&b, true, &format!("burst of {} bits at bit {}", len, st)) { return o; }
          }
        }
      }
      "crcfix-header" => {
        for (name, off, w) in HEADER_FIELDS.iter() {
          for v in hostile(n, *w) { let mut b = bytes.clone(); put(&mut b, *off, *w, v); fix_crc(&mut b); if let Some(mut o) = judge(&b, false, &format!("header.{} = {} (CRC recomputed)", name, v)) { o.class = format!("{}", o.class); return o; } }
        }
        // pairs: offsets pointing into other sections, counts inflated together with lengths
        for _ in 0..400 { let mut b = bytes.clone(); for _ in 0..2 + rng.below(3) { let (_, off, w) = *rng.pick(&HEADER_FIELDS[4..]); let hv = hostile(n, w); let v = if rng.chance(1, 3) { rng.below(n as u64 + 8) } else { *rng.pick(&hv) }; put(&mut b, off, w, v); } fix_crc(&mut b); if let Some(o) = judge(&b, false, "several header fields hostile (CRC recomputed)") { return o; } }
      }
      "crcfix-body" => {
        // hostile words over everything after the header: types, const table, blob, instructions
        let body0 = 129.min(n);
        for off in body0..n.saturating_sub(4) {
          for (w, vals) in [(1usize, vec![0u64, 1, 0x7f, 0xff]), (4, vec![0, u32::MAX as u64, 1 << 31, n as u64 + 1, 65536]), (8, vec![u64::MAX, 1 << 63, n as u64, (1 << 32) + 7])] {
            if off % 4 != 0 && w > 1 { continue; }
            for v in vals { let mut b = bytes.clone(); put(&mut b, off, w, v); fix_crc(&mut b); if let Some(o) = judge(&b, false, &format!("byte offset {} width {} = {} (CRC recomputed)", off, w, v)) { return o; } }
          }
        }
      }
      "crcfix-splice" => {
        // delete / duplicate / zero ranges, then recompute the CRC
        for _ in 0..600 {
          let mut b = bytes.clone();
          let a0 = rng.below(n as u64) as usize; let l = 1 + rng.below(40.min(n - a0) as u64) as usize;
          match rng.below(4) { 0 => { b.drain(a0..a0 + l); } 1 => { let seg: Vec<u8> = b[a0..a0 + l].to_vec(); let at = rng.below(b.len() as u64) as usize; for (i, x) in seg.iter().enumerate() { b.insert(at + i, *x); } } 2 => { for x in b[a0..a0 + l].iter_mut() { *x = 0; } } _ => { for x in b[a0..a0 + l].iter_mut() { *x = 0xff; } } }
          if b.len() < 4 { continue; }
          fix_crc(&mut b);
          if let Some(o) = judge(&b, false, "spliced file (CRC recomputed)") { return o; }
        }
      }
      "random" => {
        for i in 0..800 {
          let len = rng.below(400) as usize;
          let mut b: Vec<u8> = (0..len).map(|_| rng.next() as u8).collect();
          if i % 2 == 0 && b.len() >= 4 { b[..4].copy_from_slice(b"MECH"); }
          if i % 4 == 0 { if b.len() >= 133 { b[4] = 1; } fix_crc(&mut b); }
          if let Some(o) = judge(&b, false, "random byte string") { return o; }
        }
        for k in 0..8 { if let Some(o) = judge(&vec![0u8; k], false, "tiny file") { return o; } }
      }
      _ => {}
    }
    if loads > 0 { Outcome::held().num("loads", loads as f64).num("max_single_allocation", maxreq as f64).num("file_bytes", n as f64) } else { Outcome::trivial() }
  }
}

/// the first composite value kind (fixed priority order) among the interpreter's variables: names the constant kind a
/// decoder rejection is attributed to (value-free)
fn composite_kind(a: &Interpreter) -> &'static str {
  let syms = a.symbols(); let st = syms.borrow();
  let mut seen = std::collections::BTreeSet::new();
  fn walk(c: &CVal, seen: &mut std::collections::BTreeSet<&'static str>) {
    match c {
      CVal::Record(fs) => { seen.insert("record"); for f in fs { walk(&f.2, seen); } }
      CVal::Tuple(es) => { seen.insert("tuple"); for e in es { walk(e, seen); } }
      CVal::Table(..) => { seen.insert("table"); }
      CVal::Map(..) => { seen.insert("map"); }
      CVal::Enum(..) => { seen.insert("enum"); }
      CVal::Set(_, _, es) => { seen.insert("set"); for e in es { walk(e, seen); } }
      CVal::Atom(_) => { seen.insert("atom"); }
      _ => {}
    }
  }
  for (_, v) in st.symbols.iter() { if let Ok(c) = guarded(|| canon(&v.borrow())) { walk(&c, &mut seen); } }
  for k in ["record", "tuple", "table", "map", "enum", "set", "atom"] { if seen.contains(k) { return k; } }
  "none"
}
