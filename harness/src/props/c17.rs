//! C17 State machines run their declared transitions to the terminal state.

use crate::canon::*;
use crate::fw::*;
use crate::sess::*;
use serde::{Deserialize, Serialize};
use serde_json::{json, Value as J};

pub struct C17;

/// guard: (text, kind, constant)
#[derive(Clone, Debug, Serialize, Deserialize)]
struct Guard { kind: String, c: u64 }
impl Guard {
  fn text(&self) -> String { match self.kind.as_str() { "gt" => format!("n > {}u64", self.c), "eq" => format!("n == {}u64", self.c), "lt" => format!("n < {}u64", self.c), "ge" => format!("n >= {}u64", self.c), _ => "*".into() } }
  fn holds(&self, n: u64) -> bool { match self.kind.as_str() { "gt" => n > self.c, "eq" => n == self.c, "lt" => n < self.c, "ge" => n >= self.c, _ => true } }
  /// does the guard imply n > 0 (so that n - 1 is safe and progress is made)?
  fn implies_pos(&self) -> bool { match self.kind.as_str() { "gt" => true, "eq" => self.c >= 1, "ge" => self.c >= 1, _ => false } }
}
#[derive(Clone, Debug, Serialize, Deserialize)]
struct Branch { guard: Guard, target: usize /* state index; usize::MAX = Done */, dn: u64, add: u64 }
#[derive(Clone, Debug, Serialize, Deserialize)]
struct Machine { states: Vec<Vec<Branch>>, start_add: u64, #[serde(default)] split: Vec<usize> /* per state: 0 = one arm, k = a second arm for the same state starts at branch k */ }

const NAMES: [&str; 4] = ["A", "B", "C", "D"];
const DONE: usize = 99;

impl Machine {
  fn source(&self, broken: &str) -> String {
    let mut s = String::from("#M(n<u64>) => <u64>\n");
    for (i, _) in self.states.iter().enumerate() { s.push_str(&format!("  ├ :{}(n<u64>, a<u64>)\n", NAMES[i])); }
    if broken == "unimplemented-state" { s.push_str("  ├ :Ghost(n<u64>)\n"); }
    s.push_str("  └ :Done(out<u64>).\n\n");
    s.push_str(&format!("#M(n<u64>) -> :A(n, {}u64)\n", self.start_add));
    for (i, brs) in self.states.iter().enumerate() {
      let k = self.split.get(i).cloned().unwrap_or(0);
      let groups: Vec<(usize, usize)> = if k > 0 && k < brs.len() { vec![(0, k), (k, brs.len())] } else { vec![(0, brs.len())] };
      for (lo, hi) in groups {
        // styles: "async" spells some transitions with the asynchronous operator (run synchronously it takes the same transitions);
        // "steps" inserts an op-assignment statement step on a global accumulator whose right-hand side uses the state variables
        let arrow = |j: usize| if broken.contains("async") && (i + j) % 2 == 0 { "~>" } else { "->" };
        let step_of = |b: &Branch| if broken.contains("steps") && b.target != DONE { format!("total += n + {}u64 -> ", b.add) } else { String::new() };
        let tgt_of = |j: usize, b: &Branch| if broken.contains("undeclared-target") && i == 0 && j == 0 { ":Phantom(n, a)".to_string() } else if b.target == DONE { format!(":Done(a + {}u64)", b.add) } else { format!(":{}(n - {}u64, a + {}u64)", NAMES[b.target], b.dn, b.add) };
        // a group that consists of the unguarded fallback alone is written as a direct transition
        if hi - lo == 1 && brs[lo].guard.kind == "any" && lo > 0 { s.push_str(&format!("  :{}(n, a) {} {}{}\n", NAMES[i], arrow(lo), step_of(&brs[lo]), tgt_of(lo, &brs[lo]))); continue; }
        s.push_str(&format!("  :{}(n, a)\n", NAMES[i]));
        for j in lo..hi {
          let lead = if j + 1 == hi { "└" } else { "├" };
          s.push_str(&format!("    {} {} {} {}{}\n", lead, brs[j].guard.text(), arrow(j), step_of(&brs[j]), tgt_of(j, &brs[j])));
        }
      }
    }
    s.push_str("  :Done(out) => out.\n");
    s
  }
  /// index of the state block (as written) that holds branch j of state st
  fn block_of(&self, st: usize, j: usize) -> usize {
    let mut idx = 0;
    for i in 0..st { let k = self.split.get(i).cloned().unwrap_or(0); idx += if k > 0 && k < self.states[i].len() { 2 } else { 1 }; }
    let k = self.split.get(st).cloned().unwrap_or(0);
    idx + if k > 0 && k < self.states[st].len() && j >= k { 1 } else { 0 }
  }
  /// reference simulation: (visited (state, branch index) sequence, result) or None when the limit is exceeded
  fn simulate(&self, n0: u64, limit: usize) -> Option<(Vec<(usize, usize, u64, u64)>, u64)> {
    let (mut st, mut n, mut a) = (0usize, n0, self.start_add);
    let mut visited = Vec::new();
    for _ in 0..limit {
      let brs = &self.states[st];
      let (j, b) = brs.iter().enumerate().find(|(_, b)| b.guard.holds(n))?;
      visited.push((st, j, n, a));
      if b.target == DONE { return Some((visited, a + b.add)); }
      n -= b.dn; a += b.add; st = b.target;
    }
    None
  }
}

fn gen_machine(rng: &mut Rng, terminating: bool) -> Machine {
  let ns = 1 + rng.below(4) as usize;
  let mut states = Vec::new();
  for i in 0..ns {
    let nb = 1 + rng.below(3) as usize;
    let mut brs = Vec::new();
    for _ in 0..nb.saturating_sub(1) {
      let kind = *rng.pick(&["gt", "gt", "eq", "ge", "lt"]);
      let g = Guard { kind: kind.into(), c: rng.below(5) };
      let to_state = g.implies_pos() && rng.chance(3, 4);
      brs.push(Branch { target: if to_state { rng.below(ns as u64) as usize } else { DONE }, dn: if to_state { 1 } else { 0 }, add: 1 + rng.below(20), guard: g });
    }
    // exhaustive fallback
    let looping = !terminating && i == 0;
    brs.push(Branch { guard: Guard { kind: "any".into(), c: 0 }, target: if looping { 0 } else { DONE }, dn: 0, add: if looping { 0 } else { 100 + rng.below(50) } });
    states.push(brs);
  }
  // half of the states with several branches are written as two arms for the same state (a guard arm whose guards may all
  // fail, then the rest): the run must fall through to the later arm
  let split: Vec<usize> = states.iter().map(|b: &Vec<Branch>| if b.len() >= 2 && rng.chance(1, 2) { 1 + rng.below(b.len() as u64 - 1) as usize } else { 0 }).collect();
  Machine { states, start_add: rng.below(7), split }
}

fn parse_transition(msg: &str) -> Option<(usize, String, Vec<u64>)> {
  // "arm[i] <prev> -> @addr :State(@..) u64(@..:N) u64(@..:M)"
  let arm: usize = msg.strip_prefix("arm[")?.split(']').next()?.parse().ok()?;
  let new = msg.split(" -> ").nth(1)?;
  let name = new.split(':').nth(1)?.split('(').next()?.to_string();
  let vals: Vec<u64> = new.split("u64(").skip(1).filter_map(|p| p.split(')').next()?.rsplit(':').next()?.parse().ok()).collect();
  Some((arm, name, vals))
}

impl Prop for C17 {
  fn id(&self) -> &'static str { "C17" }
  fn rule(&self) -> String { "generated transition systems with 1-4 states carrying two payload fields, 1-3 guarded branches per state (guards over the counter where several may hold at once, an exhaustive fallback, self loops and cross transitions), run on every input 0..7; array-pattern machines over inputs of several lengths; ill-formed variants (argument of the wrong kind, transition to an undeclared state, declared state without an arm); non-terminating machines run with max_steps 10 and 1000 (and the default limit once in thorough). The interpreter runs with tracing on; the checker reads trace_events and compares the sequence of (arm index, next state, payload) of every `transition` event and the output with a reference simulation, and decides the transition limit on the number of `step` events. Non-trivial = the machine was accepted and produced a trace".into() }
  fn assumptions(&self) -> Vec<String> { vec!["the first branch (in source order) whose guard holds is taken; arm indices in the trace are positions of the state blocks in the implementation".into()] }
  fn floor(&self, tier: Tier) -> usize { if tier == Tier::Quick { 400 } else { 4000 } }
  fn watchdog(&self, _t: Tier) -> std::time::Duration { std::time::Duration::from_secs(300) }

  fn gen(&self, tier: Tier, seed: u64) -> Vec<Case> {
    let mut out = Vec::new();
    let nm = if tier == Tier::Quick { 120 } else { 1500 };
    for i in 0..nm {
      let mut rng = Rng::keyed(seed, &format!("c17m{}", i));
      let m = gen_machine(&mut rng, true);
      for n in 0..8u64 { out.push(Case { id: format!("run;m={};n={}", i, n), cell: format!("run;states={}", m.states.len()), input: json!({"mode": "run", "machine": m, "n": n}) }); }
      // the same machines written with asynchronous arrows and / or statement steps (a decoy global named like the state variable)
      for (si, style) in ["async", "steps"].iter().enumerate() { let n = (i as u64 + si as u64 * 3) % 8; out.push(Case { id: format!("styled;{};m={};n={}", style, i, n), cell: format!("styled;{}", style), input: json!({"mode": "styled", "machine": m, "n": n, "style": style}) }); }
      if i % 4 == 0 { out.push(Case { id: format!("illformed;undeclared-target-async;m={}", i), cell: "illformed;undeclared-target-async".into(), input: json!({"mode": "illformed", "machine": m, "broken": "undeclared-target+async"}) }); }
      if i % 4 == 0 { for b in ["undeclared-target", "unimplemented-state", "wrong-kind-string", "wrong-kind-f64"] { out.push(Case { id: format!("illformed;{};m={}", b, i), cell: format!("illformed;{}", b), input: json!({"mode": "illformed", "machine": m, "broken": b}) }); } }
    }
    let nl = if tier == Tier::Quick { 40 } else { 400 };
    for i in 0..nl {
      let mut rng = Rng::keyed(seed, &format!("c17loop{}", i));
      let m = gen_machine(&mut rng, false);
      for lim in [10usize, 1000] { out.push(Case { id: format!("limit;m={};max={}", i, lim), cell: format!("limit;max={}", lim), input: json!({"mode": "limit", "machine": m, "n": rng.below(4), "max": lim}) }); }
    }
    if tier == Tier::Thorough { let mut rng = Rng::keyed(seed, "c17default"); let m = gen_machine(&mut rng, false); out.push(Case { id: "limit;default".into(), cell: "limit;max=default".into(), input: json!({"mode": "limit", "machine": m, "n": 1, "max": 1000000}) }); }
    // array-pattern machines
    for (k, xs) in [vec![5u64, 3, 8], vec![1], vec![2, 2, 2, 2, 2], vec![9, 1], vec![4, 0, 6, 7]].iter().enumerate() {
      out.push(Case { id: format!("array;sum;k={}", k), cell: "array;sum".into(), input: json!({"mode": "array", "xs": xs}) });
    }
    // array state patterns over EVERY numeric element kind (the pattern matcher slices the matrix per kind), three machines:
    // head | tail sum, two-item prefix | tail (sum of the odd positions), first … last
    for k in crate::refm::REAL_KINDS.iter().filter(|k| **k != "r64") {
      // (no empty vector: the literal [] has no element kind, so a machine declared over [k] rightly rejects it)
      for (j, xs) in [vec![5i64, 3, 8], vec![1], vec![2, 7, 1, 8, 2], vec![9, 1], vec![4, 0, 6, 7], vec![3, 3]].iter().enumerate() {
        for pat in ["sum", "odd", "ends", "subscript", "arg-subscript"] {
          if tier == Tier::Quick && (j + pat.len() + k.len() + seed as usize) % 2 == 1 { continue; }
          out.push(Case { id: format!("arraykind;kind={};pat={};k={}", k, pat, j), cell: format!("arraykind;kind={};pat={}", k, pat), input: json!({"mode": "arraykind", "kind": k, "xs": xs, "pat": pat}) });
        }
      }
    }
    // declared argument kinds x arguments: an argument is accepted exactly when its kind is the declared one (scalar kind,
    // element kind of an unsized matrix kind, element kind AND shape of a sized matrix kind)
    {
      let decls = ["u64", "u8", "i64", "f64", "bool", "string", "[u64]", "[f64]", "[u64]:1,3", "[u64]:3,1", "[u64]:2,2", "[f64]:1,2", "[u8]:1,3"];
      let args: [(&str, &str, (usize, usize)); 14] = [("5u64", "u64", (0, 0)), ("5u8", "u8", (0, 0)), ("5<i64>", "i64", (0, 0)), ("5.5", "f64", (0, 0)), ("true", "bool", (0, 0)), ("\"five\"", "string", (0, 0)),
        ("[1u64 2u64 3u64]", "u64", (1, 3)), ("[1u64 2u64]", "u64", (1, 2)), ("[1u64; 2u64; 3u64]", "u64", (3, 1)), ("[1u64 2u64; 3u64 4u64]", "u64", (2, 2)), ("[1u64 2u64 3u64 4u64]", "u64", (1, 4)), ("[1u8 2u8 3u8]", "u8", (1, 3)), ("[1.5 2.5]", "f64", (1, 2)), ("[1.5 2.5 3.5]", "f64", (1, 3))];
      for d in decls.iter() {
        for (a, ak, ash) in args.iter() {
          let accept = if let Some(rest) = d.strip_prefix('[') {
            let (ek, dims) = rest.split_once(']').unwrap();
            ash.0 > 0 && ek == *ak && (dims.is_empty() || dims == format!(":{},{}", ash.0, ash.1))
          } else { ash.0 == 0 && d == ak };
          for via in ["literal", "variable"] {
            out.push(Case { id: format!("argkind;decl={};arg={};via={}", d, a, via), cell: format!("argkind;decl={};{}", d, if accept { "right" } else { "wrong" }), input: json!({"mode": "argkind", "decl": d, "arg": a, "accept": accept, "via": via}) });
          }
        }
      }
    }
    // machines invoked where their arguments are LOCAL names: from another machine's transition, and from a comprehension
    // (a global of the same name holds another value; a wrong-kind element must still be rejected)
    for (i, k0) in [0u64, 5, 9].iter().enumerate() {
      out.push(Case { id: format!("nested;invoke;k={}", k0), cell: "nested;from-transition".into(), input: json!({"mode": "nested", "form": "transition", "k": k0}) });
      out.push(Case { id: format!("nested;comprehension;k={}", k0), cell: "nested;from-comprehension".into(), input: json!({"mode": "nested", "form": "comprehension", "k": k0}) });
      out.push(Case { id: format!("nested;set-comprehension;k={}", k0), cell: "nested;from-comprehension".into(), input: json!({"mode": "nested", "form": "set-comprehension", "k": k0}) });
      if i == 0 { for hdr in ["kinds-in-header", "kinds-in-spec-only"] { out.push(Case { id: format!("nested;wrong-kind;{}", hdr), cell: "nested;wrong-kind-in-comprehension".into(), input: json!({"mode": "nested", "form": "wrong-kind", "hdr": hdr, "k": 0}) }); } }
    }
    // payloads other than numbers: long and non-ASCII text carried through several states; the same state name with
    // different numbers of fields, the shorter arm first
    for (i, (ch, n)) in [("a", 40usize), ("é", 40), ("α", 600), ("a", 1500), ("日本", 700), ("🙂", 300)].iter().enumerate() {
      out.push(Case { id: format!("payload;text;{}", i), cell: "payload;text".into(), input: json!({"mode": "payload", "form": "echo", "ch": ch, "n": n}) });
      if *n <= 700 { out.push(Case { id: format!("payload;build;{}", i), cell: "payload;text".into(), input: json!({"mode": "payload", "form": "build", "ch": ch, "n": n}) }); }
    }
    for (i, (src, want)) in [
      ("#Norm(n<u64>) -> :Point(n, n + 1u64)\n  :Point(x) -> :Done(x)\n  :Point(x, y) -> :Done(x + y)\n  :Done(out) => out.\n\n#Norm(3u64)", 7u64),
      ("#Norm(n<u64>) -> :Point(n)\n  :Point(x, y) -> :Done(x + y)\n  :Point(x) -> :Point(x, x + 1u64)\n  :Done(out) => out.\n\n#Norm(3u64)", 7),
      ("#Sum(n<u64>) -> :Acc(n)\n  :Acc(n) -> :Acc(n, 0u64)\n  :Acc(0u64, total) -> :Done(total)\n  :Acc(n, total) -> :Acc(n - 1u64, total + n)\n  :Done(t) => t.\n\n#Sum(4u64)", 10),
      ("#Sum(n<u64>) -> :Seed(n)\n  :Seed(n) -> :Acc(n, 0u64)\n  :Acc(0u64, total) -> :Done(total)\n  :Acc(n, total) -> :Acc(n - 1u64, total + n)\n  :Done(t) => t.\n\n#Sum(4u64)", 10),
    ].iter().enumerate() {
      out.push(Case { id: format!("arity-overload;{}", i), cell: "arity-overload".into(), input: json!({"mode": "fixed", "src": src, "want": want}) });
    }
    // array state patterns whose variables are bound again in a later step (prefix, suffix and both ends)
    for (k, (a, b)) in [(vec![5u64, 3, 8], vec![1u64, 9]), (vec![7], vec![7]), (vec![1, 5, 9], vec![2, 4, 12]), (vec![2, 2], vec![3, 1, 6, 6]), (vec![0, 4], vec![9, 9, 9])].iter().enumerate() {
      for shape in ["last", "first", "span"] { out.push(Case { id: format!("array;rebind;shape={};k={}", shape, k), cell: format!("array;rebind;{}", shape), input: json!({"mode": "array2", "a": a, "b": b, "shape": shape}) }); }
    }
    out
  }

  fn run(&self, case: &Case, _flavour: &str) -> Outcome {
    let mode = case.input["mode"].as_str().unwrap();
    let traced = |src: &str, max: Option<usize>| -> (Ev, Vec<(String, String)>) {
      let mut s = Sess::new();
      s.intrp.set_trace_enabled(true); s.intrp.set_trace_to_stdout(false);
      if let Some(m) = max { s.intrp.max_steps = m; }
      let r = s.eval(src);
      let ev = s.intrp.trace_events().iter().map(|e| (e.label.clone().unwrap_or_default().trim().to_string(), e.message.clone())).collect();
      (r, ev)
    };
    match mode {
      "run" => {
        let m: Machine = serde_json::from_value(case.input["machine"].clone()).unwrap();
        let n = case.input["n"].as_u64().unwrap();
        // invocation forms: a bare invocation, the value bound by a definition and read back, the declaration form
        // `#inst := #M(..)` whose instance name is read back (all three evaluate to the terminal value)
        let h = case.id.bytes().fold(0xcbf29ce484222325u64, |h, b| (h ^ b as u64).wrapping_mul(0x100000001b3));
        let src = match h % 3 { 0 => format!("{}\n#M({}u64)", m.source(""), n), 1 => format!("{}\nres := #M({}u64)\nres", m.source(""), n), _ => format!("{}\n#inst := #M({}u64)\ninst", m.source(""), n) };
        let (res, ev) = traced(&src, None);
        let Some((visited, want)) = m.simulate(n, 100000) else { return Outcome::inconclusive("reference-did-not-terminate", src) };
        match &res {
          Ev::Ok(CVal::S(_, Sc::U(got))) if *got as u64 == want => {}
          Ev::Panic(p) => return Outcome::violated("panic-escaped", format!("{}\n{}", src, p)),
          other => return Outcome::violated("wrong-result", format!("{}\nreturned {} but the declared transitions lead to {} via {:?}", src, other.show(), want, visited)),
        }
        // visited sequence from the trace
        let trans: Vec<(usize, String, Vec<u64>)> = ev.iter().filter(|(l, _)| l == "transition").filter_map(|(_, m)| parse_transition(m)).collect();
        let ntrans_events = ev.iter().filter(|(l, _)| l == "transition").count();
        if trans.len() != ntrans_events { return Outcome::inconclusive("trace-format", format!("unparsed transition events in {:?}", ev.iter().filter(|(l, _)| l == "transition").map(|x| x.1.clone()).collect::<Vec<_>>())); }
        if trans.len() != visited.len() { return Outcome::violated("visited-sequence-differs", format!("{}\n{} transitions traced but the reference visits {} states: {:?}", src, trans.len(), visited.len(), visited)); }
        for (k, (st, j, nn, aa)) in visited.iter().enumerate() {
          let (arm, name, vals) = &trans[k];
          let b = &m.states[*st][*j];
          let (wname, wvals) = if b.target == DONE { ("Done".to_string(), vec![aa + b.add]) } else { (NAMES[b.target].to_string(), vec![nn - b.dn, aa + b.add]) };
          if *arm != m.block_of(*st, *j) || *name != wname || *vals != wvals { return Outcome::violated("visited-sequence-differs", format!("{}\ntransition {}: traced arm[{}] -> :{}{:?} but the reference takes state {} branch {} -> :{}{:?}", src, k, arm, name, vals, NAMES[*st], j, wname, wvals)); }
        }
        Outcome::held().num("transitions", trans.len() as f64).num("trace_events", ev.len() as f64)
      }
      "limit" => {
        let m: Machine = serde_json::from_value(case.input["machine"].clone()).unwrap();
        let n = case.input["n"].as_u64().unwrap(); let max = case.input["max"].as_u64().unwrap() as usize;
        let src = format!("{}\n#M({}u64)", m.source(""), n);
        let (res, ev) = traced(&src, Some(max));
        let steps = ev.iter().filter(|(l, _)| l == "step").count();
        match m.simulate(n, max) {
          Some((visited, want)) => match &res { Ev::Ok(CVal::S(_, Sc::U(got))) if *got as u64 == want => Outcome::held().tag("terminated-within-limit"), other => Outcome::violated("wrong-result", format!("{}\nreturned {} expected {} (terminates after {} transitions, limit {})", src, other.show(), want, visited.len(), max)) },
          None => match &res {
            Ev::Err(kind, _) => if steps == max { Outcome::held().tag("stopped-at-limit").num("steps", steps as f64) } else { Outcome::violated("limit-miscounted", format!("{}\nstopped with {} after {} step events, limit {}", src, kind, steps, max)) },
            Ev::Ok(v) => Outcome::violated("value-instead-of-limit-error", format!("{}\nnon-terminating machine returned {} (limit {})", src, v.show(), max)),
            other => Outcome::violated("panic-escaped", format!("{}\n{}", src, other.show())),
          },
        }
      }
      "styled" => {
        let m: Machine = serde_json::from_value(case.input["machine"].clone()).unwrap();
        let n = case.input["n"].as_u64().unwrap(); let style = case.input["style"].as_str().unwrap();
        // globals named like the state variables hold other values: steps must see the state's bindings
        let src = format!("~total := 0u64\nn := 77u64\na := 55u64\n{}\nr := #M({}u64)", m.source(style), n);
        let mut s = Sess::new(); s.intrp.max_steps = 2000;
        let res = s.eval(&src);
        let Some((visited, want)) = m.simulate(n, 2000) else { return Outcome::trivial() };
        let want_total: u64 = if style.contains("steps") { visited.iter().map(|(st, j, nn, _)| { let b = &m.states[*st][*j]; if b.target == DONE { 0 } else { nn + b.add } }).sum() } else { 0 };
        match &res {
          Ev::Ok(CVal::S(_, Sc::U(g))) if *g as u64 == want => {}
          Ev::Panic(p) => return Outcome::violated("panic-escaped", p.clone()),
          Ev::ParseErr(m) => return Outcome::inconclusive("harness-parse", format!("{}\n{}", src, m)),
          other => return Outcome::violated("wrong-result", format!("{}\nreturned {} expected {}", src, other.show(), want)),
        }
        match s.get("total") { Some(CVal::S(_, Sc::U(t))) if t as u64 == want_total => {}, other => return Outcome::violated("step-effect-wrong", format!("{}\nthe accumulator holds {:?} expected {}", src, other.map(|v| v.show()), want_total)) }
        if s.get("n") != Some(sc_u("u64", 77)) || s.get("a") != Some(sc_u("u64", 55)) { return Outcome::violated("global-changed", format!("{}\nn = {:?}, a = {:?}", src, s.get("n").map(|v| v.show()), s.get("a").map(|v| v.show()))); }
        Outcome::held().num("transitions", visited.len() as f64)
      }
      "illformed" => {
        let m: Machine = serde_json::from_value(case.input["machine"].clone()).unwrap();
        let broken = case.input["broken"].as_str().unwrap();
        // the undeclared target must be reachable for the run to meet it; rejection at definition or call time is accepted either way
        let src = match broken { "wrong-kind-string" => format!("{}\n#M(\"five\")", m.source("")), "wrong-kind-f64" => format!("{}\n#M(5.5)", m.source("")), b => format!("{}\n#M(5u64)", m.source(b)) };
        let (res, _) = traced(&src, Some(2000));
        match res { Ev::Ok(v) => Outcome::violated("illformed-accepted", format!("{}\nreturned {}", src, v.show())), Ev::Panic(p) => Outcome::violated("panic-escaped", p), _ => Outcome::held() }
      }
      "array" => {
        let xs: Vec<u64> = serde_json::from_value(case.input["xs"].clone()).unwrap();
        let src = format!("#Sum(xs<[u64]>) => <u64>\n  ├ :Scan(xs<[u64]>, acc<u64>)\n  └ :Done(out<u64>).\n\n#Sum(xs) -> :Scan(xs, 0u64)\n  :Scan([x | tail], acc) -> :Scan(tail, acc + x)\n  :Scan([], acc) -> :Done(acc)\n  :Done(out) => out.\n\n#Sum([{}])", xs.iter().map(|x| format!("{}u64", x)).collect::<Vec<_>>().join(" "));
        let (res, ev) = traced(&src, None);
        let want: u64 = xs.iter().sum();
        let nt = ev.iter().filter(|(l, _)| l == "transition").count();
        match &res { Ev::Ok(CVal::S(_, Sc::U(g))) if *g as u64 == want => if nt == xs.len() + 1 { Outcome::held() } else { Outcome::violated("visited-sequence-differs", format!("{}\n{} transitions traced, expected {}", src, nt, xs.len() + 1)) }, other => Outcome::violated("wrong-result", format!("{}\nreturned {} expected {}", src, other.show(), want)) }
      }
      "arraykind" => {
        let k = case.input["kind"].as_str().unwrap();
        let xs: Vec<i64> = serde_json::from_value(case.input["xs"].clone()).unwrap();
        let pat = case.input["pat"].as_str().unwrap();
        let sc = |v: i64| match k { "f64" => Sc::f64(v as f64), "f32" => Sc::f32(v as f32), _ => crate::refm::small_val(k, v) };
        let l = |v: i64| lit(&CVal::S(k.to_string(), sc(v))).unwrap();
        let arg = if xs.is_empty() { "[]".to_string() } else { format!("[{}]", xs.iter().map(|x| l(*x)).collect::<Vec<_>>().join(" ")) };
        let (body, want): (String, i64) = match pat {
          "sum" => ("  :Scan([x | tail], acc) -> :Scan(tail, acc + x)\n  :Scan([], acc) -> :Done(acc)\n".into(), xs.iter().sum()),
          "odd" => ("  :Scan([a, b | tail], acc) -> :Scan(tail, acc + a)\n  :Scan([a | tail], acc) -> :Scan(tail, acc + a)\n  :Scan([], acc) -> :Done(acc)\n".into(), xs.iter().step_by(2).sum()),
          // a pattern variable / a state argument that is SUBSCRIPTED in the next state (globals of the same names hold other vectors)
          "subscript" => { if xs.len() < 2 { return Outcome::trivial(); } ("  :Scan([x | tail], acc) -> :Done(tail[1] * {T} + x)\n".replace("{T}", &l(10)), xs[1] * 10 + xs[0]) }
          "arg-subscript" => { if xs.len() < 2 { return Outcome::trivial(); } ("  :Scan(xs, acc) -> :Done(xs[2] * {T} + xs[1])\n".replace("{T}", &l(10)), xs[1] * 10 + xs[0]) }
          // first and last of a vector with at least two elements, the single element twice, zero for the empty vector
          _ => ("  :Scan([lo … hi], acc) -> :Done(lo * {T} + hi)\n  :Scan([x | tail], acc) -> :Done(x * {T} + x)\n  :Scan([], acc) -> :Done(acc)\n".replace("{T}", &l(10)), match xs.len() { 0 => 0, 1 => xs[0] * 11, n => xs[0] * 10 + xs[n - 1] }),
        };
        if xs.is_empty() && pat != "sum" { return Outcome::trivial(); }
        let src = format!("#Arr(xs<[{k}]>) => <{k}>\n  ├ :Scan(xs<[{k}]>, acc<{k}>)\n  └ :Done(out<{k}>).\n\n#Arr(xs) -> :Scan(xs, {z})\n{body}  :Done(out) => out.\n\nxs := [{d1} {d2} {d3}]\ntail := [{d2} {d3} {d1}]\nx := {d3}\nacc := {d1}\n#Arr({arg})", k = k, z = l(0), body = body, arg = arg, d1 = l(4), d2 = l(6), d3 = l(9));
        let mut s = Sess::new();
        let res = s.eval(&src);
        let wantv = CVal::S(k.to_string(), sc(want));
        // the u64 twin of the same machine decides whether the machine as written is supported at all
        match &res {
          Ev::Ok(v) if *v == wantv => Outcome::held(),
          Ev::Panic(p) => Outcome::violated("panic-escaped", p.clone()),
          Ev::ParseErr(m) => Outcome::inconclusive("harness-parse", format!("{}: {}", src, m)),
          other => {
            if k != "u64" {
              let lu = |v: i64| format!("{}u64", v);
              let twin = format!("#Arr(xs<[u64]>) => <u64>\n  ├ :Scan(xs<[u64]>, acc<u64>)\n  └ :Done(out<u64>).\n\n#Arr(xs) -> :Scan(xs, 0u64)\n{body}  :Done(out) => out.\n\nxs := [4u64 6u64 9u64]\ntail := [6u64 9u64 4u64]\nx := 9u64\nacc := 4u64\n#Arr({arg})", body = body.replace(&l(10), "10u64"), arg = if xs.is_empty() { "[]".to_string() } else { format!("[{}]", xs.iter().map(|x| lu(*x)).collect::<Vec<_>>().join(" ")) });
              let mut t = Sess::new();
              let tw = t.eval(&twin);
              if !matches!(&tw, Ev::Ok(CVal::S(_, Sc::U(g))) if *g as i64 == want) { return Outcome::trivial().tag(format!("machine-unsupported:{}", pat)); }
            }
            Outcome::violated("wrong-result", format!("{}\nreturned {} expected {}", src, other.show(), wantv.show()))
          }
        }
      }
      "argkind" => {
        let d = case.input["decl"].as_str().unwrap();
        let a = case.input["arg"].as_str().unwrap();
        let accept = case.input["accept"].as_bool().unwrap();
        let via = case.input["via"].as_str().unwrap();
        let call = if via == "variable" { format!("argv := {}\n#K(argv)", a) } else { format!("#K({})", a) };
        let src = format!("#K(p<{d}>) => <u64>\n  ├ :A(p<{d}>)\n  └ :Done(out<u64>).\n\n#K(p) -> :A(p)\n  :A(p) -> :Done(7u64)\n  :Done(out) => out.\n\n{call}", d = d, call = call);
        let mut s = Sess::new();
        match (s.eval(&src), accept) {
          (Ev::Panic(p), _) => Outcome::violated("panic-escaped", p),
          (Ev::ParseErr(m), _) => Outcome::inconclusive("harness-parse", format!("{}: {}", src, m)),
          (Ev::Ok(v), true) => if v == sc_u("u64", 7) { Outcome::held() } else { Outcome::violated("wrong-result", format!("{}\nreturned {}", src, v.show())) },
          (Ev::Ok(v), false) => Outcome::violated("illformed-accepted", format!("{}\nan argument of another kind than the declared {} was accepted: {}", src, d, v.show())),
          (Ev::Err(kd, m), true) => Outcome::violated("well-kinded-argument-rejected", format!("{}\n{} {}", src, kd, m.chars().take(120).collect::<String>())),
          (Ev::Err(..), false) => Outcome::held(),
        }
      }
      "nested" => {
        let k = case.input["k"].as_u64().unwrap();
        let form = case.input["form"].as_str().unwrap();
        let hdr_kinds = case.input.get("hdr").and_then(|h| h.as_str()).unwrap_or("kinds-in-header") == "kinds-in-header";
        let inc = format!("#Inc(n<u64>) => <u64>\n  ├ :A(n<u64>)\n  └ :Done(n<u64>).\n\n#Inc({}) -> :A(n)\n  :A(n) -> :Done(n + 1u64)\n  :Done(n) => n.\n\n", if hdr_kinds { "n<u64>" } else { "n" });
        let twice = "#Twice(k<u64>) => <u64>\n  ├ :Start(k<u64>)\n  └ :Finish(k<u64>).\n\n#Twice(k<u64>) -> :Start(k)\n  :Start(k) -> :Finish(#Inc(#Inc(k)))\n  :Finish(k) => k.\n\n";
        let decoy = "k := 100u64\nx := 200u64\nn := 300u64\n";
        let (src, want): (String, Option<Vec<u64>>) = match form {
          "transition" => (format!("{}{}{}#Twice({}u64)", inc, twice, decoy, k), Some(vec![k + 2])),
          "comprehension" => (format!("{}{}[ #Inc(x) | x <- [{}u64 {}u64 {}u64] ]", inc, decoy, k, k + 1, k + 7), Some(vec![k + 1, k + 2, k + 8])),
          "set-comprehension" => (format!("{}{}{{ #Inc(x) | x <- {{{}u64, {}u64}} }}", inc, decoy, k, k + 3), Some(vec![k + 1, k + 4])),
          _ => (format!("{}{}[ #Inc(x) | x <- [1u8 2u8 3u8] ]", inc, decoy), None),
        };
        let (res, _) = traced(&src, None);
        match (&res, want) {
          (Ev::Panic(p), _) => Outcome::violated("panic-escaped", p.clone()),
          (Ev::Ok(v), Some(w)) => { let mut got: Vec<u64> = match v { CVal::S(_, Sc::U(x)) => vec![*x as u64], o => o.elems().iter().chain(if let CVal::Set(_, _, e) = o { e.iter() } else { [].iter() }).filter_map(|e| if let CVal::S(_, Sc::U(x)) = e { Some(*x as u64) } else { None }).collect() }; let mut w2 = w.clone(); if form == "set-comprehension" { got.sort(); w2.sort(); } if got == w2 { Outcome::held() } else { Outcome::violated("wrong-result", format!("{}\nreturned {} expected {:?}", src, v.show(), w)) } }
          (other, Some(w)) => Outcome::violated("wrong-result", format!("{}\nreturned {} expected {:?}", src, other.show(), w)),
          (Ev::Ok(v), None) => Outcome::violated("illformed-accepted", format!("{}\nelements of kind u8 were accepted for n<u64>: {}", src, v.show())),
          (_, None) => Outcome::held().tag("rejected"),
        }
      }
      "payload" => {
        let ch = case.input["ch"].as_str().unwrap(); let n = case.input["n"].as_u64().unwrap() as usize;
        let text = ch.repeat(n);
        let src = if case.input["form"].as_str().unwrap() == "echo" {
          format!("#Echo(s<string>) => <string>\n  ├ :Hold(s<string>)\n  ├ :Pass(s<string>)\n  └ :Done(s<string>).\n\n#Echo(s<string>) -> :Hold(s)\n  :Hold(s) -> :Pass(s)\n  :Pass(s) -> :Done(s)\n  :Done(s) => s.\n\n#Echo(\"{}\")", text)
        } else {
          format!("#Repeat(n<u64>) => <string>\n  ├ :Build(n<u64>, acc<string>)\n  └ :Done(out<string>).\n\n#Repeat(n<u64>) -> :Build(n, \"\")\n  :Build(0u64, acc) -> :Done(acc)\n  :Build(n, acc) -> :Build(n - 1u64, acc + \"{}\")\n  :Done(out) => out.\n\n#Repeat({}u64)", ch, n)
        };
        let (res, _) = traced(&src, Some(100000));
        let shown = |s: &str| s.chars().take(120).collect::<String>();
        match &res {
          Ev::Ok(CVal::S(_, Sc::S(got))) => if *got == text { Outcome::held() } else { Outcome::violated("wrong-result", format!("{}\nreturned a string of {} chars, expected {} x {:?}", shown(&src), got.chars().count(), n, ch)) },
          Ev::Panic(p) => Outcome::violated("panic-escaped", p.clone()),
          other => Outcome::violated("wrong-result", format!("{}\nreturned {} expected {} x {:?}", shown(&src), other.show().chars().take(200).collect::<String>(), n, ch)),
        }
      }
      "fixed" => {
        let src = case.input["src"].as_str().unwrap(); let want = case.input["want"].as_u64().unwrap();
        let (res, _) = traced(src, Some(10000));
        match &res { Ev::Ok(CVal::S(_, Sc::U(g))) if *g as u64 == want => Outcome::held(), Ev::Panic(p) => Outcome::violated("panic-escaped", p.clone()), other => Outcome::violated("wrong-result", format!("{}\nreturned {} expected {}", src, other.show(), want)) }
      }
      "array2" => {
        let a: Vec<u64> = serde_json::from_value(case.input["a"].clone()).unwrap();
        let b: Vec<u64> = serde_json::from_value(case.input["b"].clone()).unwrap();
        let shape = case.input["shape"].as_str().unwrap();
        let (pat, expr, f): (&str, &str, fn(&Vec<u64>) -> u64) = match shape { "last" => ("[… y]", "y", |v| v[v.len() - 1]), "first" => ("[y …]", "y", |v| v[0]), _ => ("[lo … hi]", "hi + lo", |v| v[v.len() - 1] + v[0]) };
        if shape == "span" && (a.len() < 2 || b.len() < 2) { return Outcome::trivial(); }
        let l = |v: &Vec<u64>| format!("[{}]", v.iter().map(|x| format!("{}u64", x)).collect::<Vec<_>>().join(" "));
        let src = format!("#Two(a<[u64]>, b<[u64]>) => <u64>\n  ├ :Step(xs<[u64]>, ys<[u64]>, acc<u64>)\n  └ :Done(out<u64>).\n\n#Two(a<[u64]>, b<[u64]>) -> :Step(a, b, 0u64)\n  :Step({p}, [], acc) -> :Done(acc + {e})\n  :Step({p}, next, acc) -> :Step(next, [], acc + {e})\n  :Done(out) => out.\n\n#Two({x}, {y})", p = pat, e = expr, x = l(&a), y = l(&b));
        let (res, ev) = traced(&src, None);
        let want = f(&a) + f(&b);
        let nt = ev.iter().filter(|(l, _)| l == "transition").count();
        match &res { Ev::Ok(CVal::S(_, Sc::U(g))) if *g as u64 == want => if nt == 2 { Outcome::held() } else { Outcome::violated("visited-sequence-differs", format!("{}\n{} transitions traced, expected 2", src, nt)) }, Ev::Panic(p) => Outcome::violated("panic-escaped", p.clone()), other => Outcome::violated("wrong-result", format!("{}\nreturned {} expected {}", src, other.show(), want)) }
      }
      _ => Outcome::inconclusive("bad-mode", String::new()),
    }
  }
}
