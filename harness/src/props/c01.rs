//! C01 Elementwise operators: same result for every shape, kind and broadcast form.

use crate::canon::*;
use crate::fw::*;
use crate::refm::*;
use crate::sess::*;
use serde_json::{json, Value as J};
use std::collections::BTreeMap;

pub struct C01;

type Shape = Option<(usize, usize)>; // None = scalar

fn shape_name(s: Shape) -> String { match s { None => "s".into(), Some((r, c)) => format!("{}x{}", r, c) } }

const MATS: [(usize, usize); 15] = [(1, 1), (1, 2), (1, 3), (1, 4), (1, 7), (2, 1), (3, 1), (4, 1), (5, 1), (2, 2), (3, 3), (4, 4), (2, 3), (3, 2), (3, 5)];

/// (lhs, rhs, relation)
fn shape_pairs(tier: Tier) -> Vec<(Shape, Shape, &'static str)> {
  let mut v: Vec<(Shape, Shape, &'static str)> = vec![(None, None, "eq")];
  if tier == Tier::Thorough {
    for m in MATS { v.push((Some(m), Some(m), "eq")); v.push((None, Some(m), "sl")); v.push((Some(m), None, "sr")); }
    for (r, c) in [(2, 2), (3, 3), (4, 4), (2, 3), (3, 2), (3, 5)] {
      v.push((Some((r, c)), Some((1, c)), "rowvec")); v.push((Some((1, c)), Some((r, c)), "rowvec"));
      v.push((Some((r, c)), Some((r, 1)), "colvec")); v.push((Some((r, 1)), Some((r, c)), "colvec"));
    }
    // 1x1 against vectors: a 1x1 is a (degenerate) matching row / column vector
    v.push((Some((3, 1)), Some((1, 1)), "rowvec")); v.push((Some((1, 1)), Some((1, 3)), "colvec"));
    for (a, b) in [((1, 2), (1, 3)), ((1, 3), (1, 4)), ((1, 4), (1, 7)), ((2, 1), (3, 1)), ((3, 1), (4, 1)), ((4, 1), (5, 1)), ((2, 2), (3, 3)), ((3, 3), (4, 4)), ((2, 3), (3, 2)), ((3, 2), (2, 3)), ((3, 5), (3, 3)), ((1, 3), (3, 1)), ((3, 1), (1, 3)), ((1, 1), (2, 2)), ((2, 2), (1, 1)), ((2, 3), (1, 2)), ((2, 3), (3, 1)), ((4, 4), (1, 3)), ((1, 7), (5, 1))] {
      v.push((Some(a), Some(b), "incompat"));
    }
  } else {
    for m in [(1, 1), (1, 3), (3, 1), (2, 2), (2, 3), (4, 4), (1, 7)] { v.push((Some(m), Some(m), "eq")); }
    for m in [(1, 3), (3, 1), (2, 3), (3, 3), (5, 1)] { v.push((None, Some(m), "sl")); v.push((Some(m), None, "sr")); }
    for (r, c) in [(2, 3), (3, 3)] {
      v.push((Some((r, c)), Some((1, c)), "rowvec")); v.push((Some((1, c)), Some((r, c)), "rowvec"));
      v.push((Some((r, c)), Some((r, 1)), "colvec")); v.push((Some((r, 1)), Some((r, c)), "colvec"));
    }
    for (a, b) in [((1, 2), (1, 3)), ((2, 2), (3, 3)), ((2, 3), (3, 2)), ((1, 3), (3, 1)), ((1, 1), (2, 2)), ((3, 1), (4, 1))] { v.push((Some(a), Some(b), "incompat")); }
  }
  v
}

fn mk_operand(k: &str, sh: Shape, side: usize, draw: usize, op: &str, rng: &mut Rng) -> CVal {
  let n = match sh { None => 1, Some((r, c)) => r * c };
  let mut e = Vec::new();
  for i in 0..n {
    let sc = if k == "bool" { Sc::B(rng.chance(1, 2)) }
    else if draw == 9 {
      // special floats: NaN, infinities, signed zeros among ordinary values, in different patterns on the two sides
      let pool: [f64; 7] = [f64::NAN, 1.5, f64::INFINITY, -0.0, f64::NEG_INFINITY, 0.0, -2.5];
      let x = pool[(i * (2 + side) + side * 3 + (rng.below(2) as usize)) % 7];
      if k == "f32" { Sc::f32(x as f32) } else { Sc::f64(x) }
    }
    else if draw == 0 && is_cmp(op) {
      // comparisons: both sides range over the same three values in different patterns, so that
      // every output position sees ties, less-than and greater-than pairs (also under broadcasting)
      let v = if side == 0 { 6 + ((i * 2 + i / 3) % 3) as i64 } else { 6 + ((i + 1 + i / 2) % 3) as i64 };
      small_val(k, v)
    }
    else if draw == 0 {
      if side == 0 {
        let mut v = 6 + i as i64;
        if op == "^" { v = 2 + (i as i64 % 4); }
        if (is_signed(k) || is_float(k) || k == "r64" || k == "c64") && i % 3 == 2 { v = -v; }
        small_val(k, v)
      } else {
        let v = 1 + ((i * 3 + 1) % 5) as i64;
        if op == "^" { match k { _ if is_int(k) => small_val(k, (i as i64 * 2 + 1) % 3), _ => small_val(k, v % 3) } } else { small_val(k, v) }
      }
    } else {
      rand_val(k, rng, draw == 1)
    };
    e.push(CVal::S(k.to_string(), sc));
  }
  match sh { None => e.pop().unwrap(), Some((r, c)) => CVal::M(k.to_string(), r, c, e) }
}

/// every spelling the grammar documents for an operator (first = the one the twin and the other checks use)
pub fn spellings(op: &str) -> Vec<&'static str> {
  match op { "*" => vec!["*", "×"], "/" => vec!["/", "÷"], "!=" => vec!["!=", "¬=", "≠"], "==" => vec!["==", "⩵"], ">=" => vec![">=", "≥"], "<=" => vec!["<=", "≤"], "||" => vec!["||", "∨", "⋁"], "&&" => vec!["&&", "∧", "⋀"], "⊻" => vec!["⊻", "⊕"], "not" => vec!["!", "¬"],
    "+" => vec!["+"], "-" => vec!["-"], "%" => vec!["%"], "^" => vec!["^"], "<" => vec!["<"], ">" => vec![">"], _ => vec!["?"] }
}
fn op_text(op: &str) -> String {
  match op { "neg" => "-a".into(), "not" => "!a".into(), o => format!("a {} b", o) }
}
fn twin_text(op: &str) -> String {
  match op { "neg" => "-p".into(), "not" => "!p".into(), o => format!("p {} q", o) }
}

fn at(v: &CVal, sh: (usize, usize), i: usize, j: usize) -> CVal {
  // element of operand v (scalar, or matrix of its own shape) for output position (i,j) under broadcasting
  match v {
    CVal::M(_, r, c, e) => { let ii = if *r == 1 { 0 } else { i }; let jj = if *c == 1 { 0 } else { j }; e[jj * r + ii].clone() }
    s => s.clone(),
  }
}

pub const CTX_FORMS: [&str; 4] = ["ctx-match", "ctx-bound", "ctx-fn", "ctx-compr"];
pub const SRC_FORMS: [&str; 9] = ["var", "mut", "paren", "copy", "field", "tuple", "slice", "sub", "elems"];

/// binds operand `v` under base name `n` in session `s` and returns the source text that denotes it in form `form`
/// (None when the form has no spelling for this operand)
fn src_form(s: &mut Sess, n: &str, v: &CVal, form: &str) -> Option<String> {
  s.bind(n, v, form == "mut");
  let (r, c) = v.shape();
  match form {
    "var" | "mut" => Some(n.to_string()),
    "paren" => Some(format!("({})", n)),
    "copy" => { if !s.eval(&format!("c{} := {}", n, n)).is_ok() { return None; } Some(format!("c{}", n)) }
    "field" => { if !s.eval(&format!("r{} := {{f: {}, g: 1}}", n, n)).is_ok() { return None; } Some(format!("r{}.f", n)) }
    "tuple" => { if !s.eval(&format!("t{} := ({}, true)", n, n)).is_ok() { return None; } Some(format!("t{}.1", n)) }
    "slice" => {
      if !s.eval(&format!("w{} := [{} {}]", n, n, n)).is_ok() { return None; }
      if v.is_matrix() { Some(format!("w{}[1..={},{}..={}]", n, r, c + 1, 2 * c)) } else { Some(format!("w{}[2]", n)) }
    }
    "sub" => if v.is_matrix() { Some(format!("{}[1..={},1..={}]", n, r, c)) } else { None },
    "elems" => {
      if !v.is_matrix() { return None; }
      let e = v.elems();
      for (i, x) in e.iter().enumerate() { s.bind(&format!("{}e{}", n, i), x, false); }
      let rows: Vec<String> = (0..r).map(|i| (0..c).map(|j| format!("{}e{}", n, j * r + i)).collect::<Vec<_>>().join(" ")).collect();
      Some(format!("[{}]", rows.join("; ")))
    }
    _ => None,
  }
}

fn run_srcform(case: &Case) -> Outcome {
  let op = case.input["op"].as_str().unwrap().to_string();
  let lhs: CVal = serde_json::from_value(case.input["lhs"].clone()).unwrap();
  let rhs: CVal = serde_json::from_value(case.input["rhs"].clone()).unwrap();
  let (fl, fr) = (case.input["fl"].as_str().unwrap(), case.input["fr"].as_str().unwrap());
  // reference: plain API-bound variables
  let mut t = Sess::new();
  t.bind("p", &lhs, false); t.bind("q", &rhs, false);
  let plain = t.eval(&format!("p {} q", op));
  let Ev::Ok(pv) = &plain else { return Outcome::trivial().tag("plain-form-not-a-value") };
  if fl == "same" {
    let mut s = Sess::new();
    s.bind("a", &lhs, false);
    let text = format!("a {} a", op);
    let res = s.eval(&text);
    let mut o = match &res {
      Ev::ParseErr(m) => return Outcome::inconclusive("harness-parse", format!("{}: {}", text, m)),
      Ev::Panic(m) => Outcome::violated("panic-escaped", format!("{}: {}", text, m)),
      Ev::Ok(v) if v == pv => Outcome::held(),
      Ev::Ok(v) => Outcome::violated("source-form-differs", format!("{} with a = {} gave {} but two separately bound copies give {}", text, lhs.show(), v.show(), pv.show())),
      Ev::Err(kd, m) => Outcome::violated("source-form-rejected", format!("{} with a = {} failed ({} {}) but two separately bound copies give {}", text, lhs.show(), kd, m.chars().take(100).collect::<String>(), pv.show())),
    };
    o.tags = vec!["srcform:same".to_string()]; return o;
  }
  if fl.starts_with("ctx-") {
    let k = case.input["kind"].as_str().unwrap();
    let mut s = Sess::new();
    s.bind("a", &lhs, false); s.bind("b", &rhs, false);
    let outk = if is_cmp(&op) || is_logic(&op) { "bool" } else { k };
    let (defs, text): (Option<String>, String) = match fl {
      "ctx-match" => (None, format!("y := 1u64?\n  | 7 => b {op} a\n  | n => a {op} b\n  | * => b.", op = op)),
      "ctx-bound" => (None, format!("y := (a, b)?\n  | (p, q) => p {op} q\n  | * => b.", op = op)),
      "ctx-fn" => (Some(format!("cf(p<{k}>, q<{k}>) => <{o}>\n  | (u, v) => u {op} v.", k = k, o = outk, op = op)), "cf(a, b)".to_string()),
      _ => (None, format!("[a {} b | i <- [1]]", op)),
    };
    if let Some(d) = &defs { if !s.eval(d).is_ok() { return Outcome::trivial().tag(format!("form-unavailable:{}", fl)); } }
    // the construct itself must work with a trivially correct body first (so that only the operator is under test)
    let probe = match fl { "ctx-match" => s.eval("y0 := 1u64?\n  | 7 => b\n  | n => a\n  | * => b.") , "ctx-bound" => s.eval("y0 := (a, b)?\n  | (p, q) => p\n  | * => b."), "ctx-fn" => { let d0 = format!("cf0(p<{k}>, q<{k}>) => <{k}>\n  | (u, v) => u.", k = k); if s.eval(&d0).is_ok() { s.eval("cf0(a, b)") } else { Ev::Err("def".into(), String::new()) } }, _ => s.eval("[a | i <- [1]]") };
    let probe_ok = match (&probe, fl) { (Ev::Ok(v), "ctx-compr") => v.elems().len() == 1 && v.elems()[0] == lhs, (Ev::Ok(v), _) => v == &lhs, _ => false };
    if !probe_ok { return Outcome::trivial().tag(format!("form-unavailable:{}", fl)); }
    let res = s.eval(&text);
    let got = match (&res, fl) { (Ev::Ok(v), "ctx-compr") if v.elems().len() == 1 => Ev::Ok(v.elems()[0].clone()), _ => res.clone() };
    let mut o = match &got {
      Ev::ParseErr(m) => return Outcome::inconclusive("harness-parse", format!("{}: {}", text, m)),
      Ev::Panic(m) => Outcome::violated("panic-escaped", format!("{}: {}", text, m)),
      Ev::Ok(v) if v == pv => Outcome::held(),
      Ev::Ok(v) => Outcome::violated("context-differs", format!("{} {} with a = {} b = {} gave {} but the top-level formula gives {}", defs.clone().unwrap_or_default(), text, lhs.show(), rhs.show(), v.show(), pv.show())),
      Ev::Err(kd, m) => Outcome::violated("context-rejected", format!("{} {} with a = {} b = {} failed ({} {}) but the top-level formula gives {}", defs.clone().unwrap_or_default(), text, lhs.show(), rhs.show(), kd, m.chars().take(100).collect::<String>(), pv.show())),
    };
    o.tags = vec![format!("srcform:{}", fl)]; return o;
  }
  let mut s = Sess::new();
  let (Some(ta), Some(tb)) = (src_form(&mut s, "a", &lhs, fl), src_form(&mut s, "b", &rhs, fr)) else { return Outcome::trivial().tag("form-has-no-spelling") };
  // the form alone must denote exactly the operand (kind, shape, elements); otherwise the form is not available for it
  for (txt, v, f) in [(&ta, &lhs, fl), (&tb, &rhs, fr)] {
    match s.eval(txt) { Ev::Ok(x) if &x == v => {}, other => return Outcome::trivial().tag(format!("form-unavailable:{}", f)).tag(format!("form-unavailable-detail:{}:{}", f, other.show().chars().take(40).collect::<String>())) }
  }
  let before = s.snapshot();
  let text = format!("{} {} {}", ta, op, tb);
  let res = s.eval(&text);
  let tags = vec![format!("srcform:{}:{}", fl, fr), format!("arm:{}", s.last_arm().split_whitespace().next().unwrap_or(""))];
  let mut o = match &res {
    Ev::ParseErr(m) => return Outcome::inconclusive("harness-parse", format!("{}: {}", text, m)),
    Ev::Panic(m) => Outcome::violated("panic-escaped", format!("{}: {}", text, m)),
    Ev::Ok(v) if v == pv => {
      // reading operands through any form never changes them
      let after = s.snapshot();
      if after != before { Outcome::violated("operand-changed", format!("{} changed the session: before {} after {}", text, show_snapshot(&before), show_snapshot(&after))) } else { Outcome::held() }
    }
    Ev::Ok(v) => Outcome::violated("source-form-differs", format!("{} with a = {} b = {} gave {} but plain variables give {}", text, lhs.show(), rhs.show(), v.show(), pv.show())),
    Ev::Err(k, m) => Outcome::violated("source-form-rejected", format!("{} with a = {} b = {} failed ({} {}) but plain variables give {}", text, lhs.show(), rhs.show(), k, m.chars().take(100).collect::<String>(), pv.show())),
  };
  o.tags = tags; o
}

impl Prop for C01 {
  fn id(&self) -> &'static str { "C01" }
  fn rule(&self) -> String { "cells = operator x element kind x (lhs shape, rhs shape, relation); operands bound through the API with pairwise-distinct asymmetric elements; draw 0 benign, draw 1 random small, draw 2 boundary/random. A case is non-trivial when the scalar form of (operator, kind) is defined (learned from a probe) so that the matrix/broadcast clauses and the reference arithmetic were actually compared. distinct = distinct case ids".into() }
  fn assumptions(&self) -> Vec<String> { vec![
    "'compatible' is read generously: equal shapes, scalar with anything, r x c with 1 x c or r x 1 on either side; vector-broadcast acceptance is optional".into(),
    "integer results that do not fit the kind, division/modulus by zero and integer ^ negative are unconstrained".into(),
    "float ^ is accepted within 1 ulp of libm powf; float % accepts fmod and IEEE remainder".into(),
  ] }
  fn floor(&self, tier: Tier) -> usize { if tier == Tier::Quick { 800 } else { 8000 } }
  fn flavours(&self, tier: Tier) -> Vec<&'static str> { if tier == Tier::Thorough { vec!["chk", "rel"] } else { vec!["chk"] } }

  fn gen(&self, tier: Tier, seed: u64) -> Vec<Case> {
    let mut out = Vec::new();
    let draws = if tier == Tier::Quick { 1 } else { 3 };
    let pairs = shape_pairs(tier);
    for op in BINOPS.iter() {
      for k in ALL_KINDS.iter() {
        for (l, r, rel) in pairs.iter() {
          for d in 0..draws {
            let cell = format!("op={};kind={};l={};r={};rel={}", op, k, shape_name(*l), shape_name(*r), rel);
            // quick tier rotates the draw with the seed so different seeds see different values
            let dd = if tier == Tier::Quick { (seed as usize) % 3 } else { d };
            let id = format!("{};d={}", cell, dd);
            let mut rng = Rng::keyed(seed, &id);
            let lhs = mk_operand(k, *l, 0, dd, op, &mut rng);
            let rhs = mk_operand(k, *r, 1, dd, op, &mut rng);
            out.push(Case { id, cell, input: json!({"op": op, "kind": k, "lhs": lhs, "rhs": rhs, "rel": rel}) });
          }
          if is_float(k) {
            // special-value draw (both tiers): IEEE comparisons and arithmetic on NaN / infinities / signed zeros
            let cell = format!("op={};kind={};l={};r={};rel={}", op, k, shape_name(*l), shape_name(*r), rel);
            let id = format!("{};d=9", cell);
            let mut rng = Rng::keyed(seed, &id);
            let lhs = mk_operand(k, *l, 0, 9, op, &mut rng);
            let rhs = mk_operand(k, *r, 1, 9, op, &mut rng);
            out.push(Case { id, cell, input: json!({"op": op, "kind": k, "lhs": lhs, "rhs": rhs, "rel": rel}) });
          }
        }
      }
    }
    let ushapes: Vec<Shape> = if tier == Tier::Quick { vec![None, Some((1, 1)), Some((1, 3)), Some((3, 1)), Some((2, 3)), Some((4, 4))] } else { std::iter::once(None).chain(MATS.iter().map(|m| Some(*m))).collect() };
    for op in UNOPS.iter() {
      for k in ALL_KINDS.iter() {
        for sh in ushapes.iter() {
          for d in 0..draws {
            let dd = if tier == Tier::Quick { (seed as usize) % 3 } else { d };
            let cell = format!("op={};kind={};l={};r=-;rel=unary", op, k, shape_name(*sh));
            let id = format!("{};d={}", cell, dd);
            let mut rng = Rng::keyed(seed, &id);
            let lhs = mk_operand(k, *sh, 0, dd, op, &mut rng);
            out.push(Case { id, cell, input: json!({"op": op, "kind": k, "lhs": lhs, "rhs": J::Null, "rel": "unary"}) });
          }
        }
      }
    }
    // operand SOURCE forms: the same operand reached through a mutable variable, parentheses, a copy, a record field,
    // a tuple element, a slice of a wider matrix, a full 2-D subscript, or a literal assembled from scalar variables.
    // The oracle is the evaluation with plain variables (judged by the sweep above).
    let sf_pairs: Vec<(Shape, Shape)> = if tier == Tier::Quick { vec![(None, None), (Some((1, 3)), Some((1, 3))), (Some((2, 3)), Some((2, 3))), (None, Some((2, 3))), (Some((3, 1)), None)] }
      else { vec![(None, None), (Some((1, 3)), Some((1, 3))), (Some((3, 1)), Some((3, 1))), (Some((2, 3)), Some((2, 3))), (Some((3, 2)), Some((3, 2))), (Some((5, 1)), Some((5, 1))), (None, Some((2, 3))), (None, Some((1, 4))), (Some((3, 1)), None), (Some((3, 2)), None), (Some((2, 3)), Some((1, 3))), (Some((2, 1)), Some((2, 3)))] };
    for op in BINOPS.iter() {
      for k in ALL_KINDS.iter() {
        for (pi, (l, r)) in sf_pairs.iter().enumerate() {
          let combos: Vec<(usize, usize)> = if tier == Tier::Quick {
            // two form pairs per cell, rotating with the seed and the cell
            let h = Rng::keyed(seed, &format!("sf;{};{};{}", op, k, pi)).next() as usize;
            vec![(1 + h % (SRC_FORMS.len() - 1), 0), (0, 1 + (h / 16) % (SRC_FORMS.len() - 1)), (1 + (h / 256) % (SRC_FORMS.len() - 1), 1 + (h / 4096) % (SRC_FORMS.len() - 1))]
          } else {
            let mut v = Vec::new();
            for f in 1..SRC_FORMS.len() { v.push((f, 0)); v.push((0, f)); v.push((f, f)); v.push((f, 1 + f % (SRC_FORMS.len() - 1))); }
            v
          };
          // the whole formula evaluated inside another construct: a match arm over globals, operands bound by a tuple
          // pattern, a function arm with the operands as arguments (scalars), a comprehension head (scalars)
          {
            let ctxs: Vec<&str> = if tier == Tier::Quick { vec![CTX_FORMS[(Rng::keyed(seed, &format!("ctx;{};{};{}", op, k, pi)).next() % CTX_FORMS.len() as u64) as usize]] } else { CTX_FORMS.to_vec() };
            for cx in ctxs {
              if (cx == "ctx-fn" || cx == "ctx-compr") && (l.is_some() || r.is_some()) { continue; }
              let cell = format!("srcform;op={};kind={};l={};r={};fl={};fr={}", op, k, shape_name(*l), shape_name(*r), cx, cx);
              let id = format!("{};d={}", cell, seed % 3);
              let mut rng = Rng::keyed(seed, &id);
              let d = (seed % 2) as usize;
              let lhs = mk_operand(k, *l, 0, d, op, &mut rng);
              let rhs = mk_operand(k, *r, 1, d, op, &mut rng);
              out.push(Case { id, cell, input: json!({"stratum": "srcform", "op": op, "kind": k, "lhs": lhs, "rhs": rhs, "fl": cx, "fr": cx}) });
            }
          }
          // the SAME variable on both sides (a op a): kernels that special-case aliased operands, NaN != NaN included
          if l == r {
            let mut ds = vec![(seed % 2) as usize];
            if is_float(k) { ds.push(9); }
            for d in ds {
              let cell = format!("srcform;op={};kind={};l={};r={};fl=same;fr=same", op, k, shape_name(*l), shape_name(*r));
              let id = format!("{};d={}", cell, d);
              let mut rng = Rng::keyed(seed, &id);
              let lhs = mk_operand(k, *l, 0, d, op, &mut rng);
              out.push(Case { id, cell, input: json!({"stratum": "srcform", "op": op, "kind": k, "lhs": lhs, "rhs": lhs, "fl": "same", "fr": "same"}) });
            }
          }
          for (fl, fr) in combos {
            let cell = format!("srcform;op={};kind={};l={};r={};fl={};fr={}", op, k, shape_name(*l), shape_name(*r), SRC_FORMS[fl], SRC_FORMS[fr]);
            let id = format!("{};d={}", cell, seed % 3);
            let mut rng = Rng::keyed(seed, &id);
            let d = (seed % 2) as usize;
            let lhs = mk_operand(k, *l, 0, d, op, &mut rng);
            let rhs = mk_operand(k, *r, 1, d, op, &mut rng);
            out.push(Case { id, cell, input: json!({"stratum": "srcform", "op": op, "kind": k, "lhs": lhs, "rhs": rhs, "fl": SRC_FORMS[fl], "fr": SRC_FORMS[fr]}) });
          }
        }
      }
    }
    out
  }

  /// Miri stage: the kernels this property's constructs dispatch to, driven directly (crate /verif/miri) under the undefined-behaviour interpreter
  fn post_stage(&self, tier: Tier, seed: u64, _self_exe: &str) -> Vec<(Case, Outcome)> { crate::fw::miri_stage("C01", tier, seed, if tier == Tier::Quick { 2 } else { 1 }) }

  fn run(&self, case: &Case, _flavour: &str) -> Outcome {
    if case.cell.starts_with("stage=miri") { return crate::fw::miri_run_one(case); }
    if case.input["stratum"] == "srcform" { return run_srcform(case); }
    let op = case.input["op"].as_str().unwrap().to_string();
    let k = case.input["kind"].as_str().unwrap().to_string();
    let rel = case.input["rel"].as_str().unwrap().to_string();
    let lhs: CVal = serde_json::from_value(case.input["lhs"].clone()).unwrap();
    let rhs: Option<CVal> = if case.input["rhs"].is_null() { None } else { Some(serde_json::from_value(case.input["rhs"].clone()).unwrap()) };
    let unary = rhs.is_none();

    // the evaluation under test
    let mut s = Sess::new();
    s.bind("a", &lhs, false);
    if let Some(r) = &rhs { s.bind("b", r, false); }
    // operand forms: kernels are selected differently for variables and for inline literals, so each operand is written as
    // a literal in half of the cases (chosen by a hash of the case id) - provided the literal alone evaluates to exactly
    // the operand (how literals are read is C13's business)
    let h = case.id.bytes().fold(0xcbf29ce484222325u64, |h, b| (h ^ b as u64).wrapping_mul(0x100000001b3));
    let mut form = String::new();
    let mut spelled: Vec<String> = vec!["a".to_string(), "b".to_string()];
    for (bit, v) in [(0usize, Some(&lhs)), (1, rhs.as_ref())] {
      let Some(v) = v else { continue };
      let mut used = false;
      if (h >> (7 + bit)) & 1 == 1 {
        if let Some(l) = lit(v) {
          let l = if l.starts_with('-') { format!("({})", l) } else { l };
          if let Ev::Ok(pv) = s.eval(&l) { if &pv == v { spelled[bit] = l; used = true; } }
        }
      }
      form.push(if used { 'l' } else { 'v' });
    }
    // (the formula is assembled from the two spellings; substituting names inside a text that already holds a string
    // literal would rewrite the literal)
    // operator spellings: the grammar accepts several glyphs for some operators (static table from the specification);
    // the statement under test uses one chosen by the hash, the scalar twin always the first
    let glyph = { let alts = spellings(&op); alts[((h >> 11) % alts.len() as u64) as usize] };
    let text = match op.as_str() { "neg" => format!("-{}", spelled[0]), "not" => format!("{}{}", glyph, spelled[0]), _ => format!("{} {} {}", spelled[0], glyph, spelled[1]) };
    let res = s.eval(&text);
    let arm = s.last_arm();
    let mut tags = vec![format!("form:{}", form), format!("glyph:{}", glyph)];
    if res.is_ok() && !arm.is_empty() { tags.push(format!("arm:{}", arm.split_whitespace().next().unwrap_or(""))); }
    if let Ev::ParseErr(m) = &res { return Outcome::inconclusive("harness-parse", m.clone()); }
    if let Ev::Panic(m) = &res { return Outcome::violated("panic-escaped", m.clone()); }

    // twin session: scalar evaluations of the same operator
    let mut t = Sess::new();
    let mut cache: BTreeMap<(CVal, Option<CVal>), Ev> = BTreeMap::new();
    let mut twin = |t: &mut Sess, x: &CVal, y: Option<&CVal>| -> Ev {
      let key = (x.clone(), y.cloned());
      if let Some(e) = cache.get(&key) { return e.clone(); }
      t.bind("p", x, false);
      if let Some(y) = y { t.bind("q", y, false); }
      let e = t.eval(&twin_text(&op));
      cache.insert(key, e.clone());
      e
    };
    // probe: is (op, kind) defined on scalars at all?
    let probe_x = CVal::S(k.clone(), small_val(&k, 6));
    let probe_y = CVal::S(k.clone(), small_val(&k, if op == "^" { 2 } else { 3 }));
    let probe = twin(&mut t, &probe_x, if unary { None } else { Some(&probe_y) });
    let defined = probe.is_ok();
    tags.push(format!("{}:{}:{}", if defined { "defined" } else { "undefined" }, op, k));

    let refexp = |x: &CVal, y: Option<&CVal>| -> Exp {
      let xs = if let CVal::S(_, s) = x { s } else { return Exp::Free };
      match y { None => ref_unop(&op, &k, xs), Some(CVal::S(_, ys)) => ref_binop(&op, &k, xs, ys), _ => Exp::Free }
    };

    // incompatible shapes must be rejected
    if rel == "incompat" {
      return match res {
        Ev::Ok(v) => if defined { let mut o = Outcome::violated("value-instead-of-error", format!("{} with lhs {} rhs {} returned {}", op, lhs.show(), rhs.as_ref().unwrap().show(), v.show())); o.tags = tags; o } else { let mut o = Outcome::violated("value-instead-of-error", format!("undefined scalar op but matrix form returned {}", v.show())); o.tags = tags; o },
        _ => { let mut o = if defined { Outcome::held() } else { Outcome::trivial() }; o.tags = tags; o }
      };
    }

    // broadcast shape
    let (ls, rs) = (lhs.shape(), rhs.as_ref().map(|r| r.shape()).unwrap_or((1, 1)));
    let out_shape = (ls.0.max(rs.0), ls.1.max(rs.1));
    let any_matrix = lhs.is_matrix() || rhs.as_ref().map(|r| r.is_matrix()).unwrap_or(false);

    // evaluate twins
    let mut twins: Vec<(CVal, Option<CVal>, Ev)> = Vec::new();
    for j in 0..out_shape.1 { for i in 0..out_shape.0 {
      let x = at(&lhs, out_shape, i, j);
      let y = rhs.as_ref().map(|r| at(r, out_shape, i, j));
      let e = twin(&mut t, &x, y.as_ref());
      twins.push((x, y, e));
    } }
    // scalar clause on every scalar evaluation performed
    for (x, y, e) in twins.iter() {
      let exp = refexp(x, y.as_ref());
      match e {
        Ev::Ok(v) => if !exp.admits(v) {
          let mut o = Outcome::violated("scalar-arith", format!("{} {} {} = {} but reference says {}", x.show(), op, y.as_ref().map(|y| y.show()).unwrap_or_default(), v.show(), exp.show())); o.tags = tags; return o;
        },
        Ev::Err(kind, msg) => if defined && matches!(exp, Exp::Exact(_) | Exp::OneOf(_) | Exp::NearF64(..) | Exp::NearF32(..)) {
          let special = if op == "%" && is_signed(&k) && matches!((x, y.as_ref()), (CVal::S(_, Sc::I(a)), Some(CVal::S(_, Sc::I(-1)))) if *a == int_min(&k)) { ":int-min-rem-minus-one" } else { "" };
          let mut o = Outcome::violated(&format!("error-instead-of-value{}", special), format!("{} {} {} failed with {} ({}) but the operator is defined for {} and the reference result is {}", x.show(), op, y.as_ref().map(|y| y.show()).unwrap_or_default(), kind, msg.chars().take(100).collect::<String>(), k, exp.show())); o.tags = tags; return o;
        },
        _ => {}
      }
    }
    let all_ok = twins.iter().all(|t| t.2.is_ok());

    match &res {
      Ev::Ok(v) => {
        if !any_matrix {
          // scalar form: already judged through the twin (same expression); compare for determinism
          if let Ev::Ok(tv) = &twins[0].2 { if tv != v { let mut o = Outcome::violated("nondeterministic-scalar", format!("{} vs {}", tv.show(), v.show())); o.tags = tags; return o; } }
          let mut o = if defined { Outcome::held() } else { Outcome::trivial() }; o.tags = tags; return o;
        }
        // shape
        let got_shape = v.shape();
        if !v.is_matrix() || got_shape != out_shape {
          let mut o = Outcome::violated("wrong-shape", format!("result {} expected shape {}x{}", v.show(), out_shape.0, out_shape.1)); o.tags = tags; return o;
        }
        let els = v.elems();
        for (idx, (x, y, e)) in twins.iter().enumerate() {
          if let Ev::Ok(tv) = e {
            if &els[idx] != tv {
              let mut o = Outcome::violated("wrong-element", format!("element {} of {} {} {} is {} but scalar form gives {}; result {}", idx, lhs.show(), op, rhs.as_ref().map(|r| r.show()).unwrap_or_default(), els[idx].show(), tv.show(), v.show())); o.tags = tags; return o;
            }
            if v.elem_kind() != tv.elem_kind() {
              let mut o = Outcome::violated("wrong-kind", format!("matrix element kind {} but scalar form yields {}", v.elem_kind(), tv.elem_kind())); o.tags = tags; return o;
            }
          }
        }
        if !defined && all_ok == false {
          // matrix form accepted although scalar form is undefined: nothing to compare against
          let mut o = Outcome::trivial(); o.tags = tags; o.tags.push(format!("matrix-only:{}:{}", op, k)); return o;
        }
        let mut o = Outcome::held(); o.tags = tags; o
      }
      Ev::Err(kind, msg) => {
        if any_matrix && all_ok && (rel == "eq" || rel == "sl" || rel == "sr" || rel == "unary") {
          let mut o = Outcome::violated("matrix-form-rejected", format!("{} accepted on every scalar pair but {} {} {} failed: {} {}", op, lhs.show(), op, rhs.as_ref().map(|r| r.show()).unwrap_or_default(), kind, msg.chars().take(120).collect::<String>())); o.tags = tags; return o;
        }
        let mut o = if defined && all_ok { Outcome::held() } else { Outcome::trivial() };
        o.tags = tags;
        if any_matrix && all_ok { o.tags.push(format!("optional-broadcast-rejected:{}", rel)); }
        o
      }
      _ => unreachable!(),
    }
  }

  fn extra_evidence(&self, tags: &BTreeMap<String, usize>) -> J {
    let arms: Vec<&String> = tags.keys().filter(|k| k.starts_with("arm:")).collect();
    let defined: Vec<&String> = tags.keys().filter(|k| k.starts_with("defined:")).collect();
    json!({"distinct_arms_observed": arms.len(), "defined_operator_kind_pairs": defined.len()})
  }
}
