//! C11 Matrix construction by concatenation places every block where it is written.

use crate::canon::*;
use crate::fw::*;
use crate::refm::*;
use crate::sess::*;
use serde_json::{json, Value as J};
use std::collections::BTreeMap;

pub struct C11;

fn compositions(n: usize, max_parts: usize) -> Vec<Vec<usize>> {
  fn rec(n: usize, cur: &mut Vec<usize>, out: &mut Vec<Vec<usize>>, max_parts: usize) {
    if n == 0 { out.push(cur.clone()); return; }
    if cur.len() == max_parts { return; }
    for p in 1..=n { cur.push(p); rec(n - p, cur, out, max_parts); cur.pop(); }
  }
  let mut out = Vec::new(); rec(n, &mut Vec::new(), &mut out, max_parts); out
}

/// a tiling: list of block rows; each block row = (height, widths)
type Tiling = Vec<(usize, Vec<usize>)>;

fn tilings(r: usize, c: usize) -> Vec<Tiling> {
  let hs = compositions(r, 4); let ws = compositions(c, 4);
  let mut out = Vec::new();
  for h in hs.iter() {
    // cartesian product of width compositions per block row
    let mut idx = vec![0usize; h.len()];
    loop {
      out.push(h.iter().enumerate().map(|(i, hh)| (*hh, ws[idx[i]].clone())).collect());
      let mut k = 0;
      loop { if k == h.len() { break; } idx[k] += 1; if idx[k] < ws.len() { break; } idx[k] = 0; k += 1; }
      if k == h.len() { break; }
    }
  }
  out
}

fn tiling_name(t: &Tiling) -> String { t.iter().map(|(h, ws)| format!("{}x[{}]", h, ws.iter().map(|w| w.to_string()).collect::<Vec<_>>().join("+"))).collect::<Vec<_>>().join("/") }

fn elem(k: &str, n: i64) -> CVal { let n = match k { "i8" => (n - 1) % 127 + 1, "u8" => (n - 1) % 255 + 1, _ => n }; if k == "bool" { sc_b(n % 3 != 0) } else { CVal::S(k.to_string(), small_val(k, n)) } }

/// builds the case input: blocks (name -> value), source text, expected matrix (or null for invalid)
fn build(k: &str, t: &Tiling, rng: &mut Rng, scalar_as_1x1: bool, mutate: Option<&str>) -> Option<(J, String)> {
  let rows: usize = t.iter().map(|x| x.0).sum();
  let cols: usize = t[0].1.iter().sum();
  let mut grid: Vec<Vec<Option<CVal>>> = vec![vec![None; cols]; rows];
  let mut blocks: BTreeMap<String, CVal> = BTreeMap::new();
  let mut text_rows = Vec::new();
  let mut counter = 1i64;
  let mut r0 = 0;
  // choose the block to damage
  let nblocks: usize = t.iter().map(|x| x.1.len()).sum();
  let victim = rng.below(nblocks as u64) as usize;
  let mut bi = 0usize;
  let mut valid_mutation = false;
  for (ri, (h, ws)) in t.iter().enumerate() {
    let mut c0 = 0; let mut names = Vec::new();
    for (ci, w) in ws.iter().enumerate() {
      let name = format!("b{}{}", ri, ci);
      let (mut bh, mut bw, mut bk) = (*h, *w, k.to_string());
      if bi == victim { match mutate { Some("height") => { if ws.len() >= 2 || t.len() >= 1 { bh += 1; valid_mutation = ws.len() >= 2; } } Some("width") => { if t.len() >= 2 { bw += 1; valid_mutation = true; } } Some("kind") => { if nblocks >= 2 { bk = if k == "string" { "f64".into() } else if k == "f64" { "string".into() } else if k == "bool" { "u8".into() } else { "bool".into() }; valid_mutation = true; } } _ => {} } }
      let mut e = Vec::new();
      for j in 0..bw { for i in 0..bh { let v = elem(&bk, counter); counter += 1; if i < *h && j < *w { grid[r0 + i][c0 + j] = Some(v.clone()); } e.push(v); } }
      let val = if bh == 1 && bw == 1 && !scalar_as_1x1 { e[0].clone() } else { CVal::M(bk.clone(), bh, bw, e) };
      blocks.insert(name.clone(), val);
      names.push(name);
      c0 += w; bi += 1;
    }
    text_rows.push(names.join(" "));
    r0 += h;
  }
  if mutate.is_some() && !valid_mutation { return None; }
  let src = format!("[{}]", text_rows.join("; "));
  let expect = if mutate.is_some() { J::Null } else {
    let mut e = Vec::new();
    for j in 0..cols { for i in 0..rows { e.push(grid[i][j].clone().unwrap()); } }
    json!(CVal::M(k.to_string(), rows, cols, e))
  };
  Some((json!({"kind": k, "blocks": blocks, "src": src, "expect": expect}), src))
}

/// case input holds only the parameters; the blocks are rebuilt from them in run() (materialised inputs of all tilings x kinds
/// would need gigabytes in every worker)
fn lazy(seed: u64, key: &str, k: &str, t: &Tiling, s1: bool, mutate: Option<&str>) -> Option<J> {
  let mut rng = Rng::keyed(seed, key);
  build(k, t, &mut rng, s1, mutate)?;
  Some(json!({"kind": k, "tiling": t, "key": key, "seed": seed, "s1": s1, "mutate": mutate}))
}

impl Prop for C11 {
  fn id(&self) -> &'static str { "C11" }
  fn rule(&self) -> String { "all tilings of results up to 4x4 by 1-4 block rows x 1-4 blocks per row (compositions of heights and widths), each block a scalar, 1x1 matrix, row vector, column vector or matrix as its size dictates, plus larger dynamic ones and literals with 5-8 block rows and/or 5-8 blocks per row (n-ary kernels); x element kinds; blocks are API-bound variables with pairwise distinct contents. Invalid variants: one block one row too tall, one block one column too wide, one block of another kind. The result is compared with reference block placement. Non-trivial = more than one block".into() }
  fn assumptions(&self) -> Vec<String> { vec!["a literal with a single scalar entry [s] may evaluate to the scalar or to a 1x1 matrix".into()] }
  fn floor(&self, tier: Tier) -> usize { if tier == Tier::Quick { 1500 } else { 20000 } }
  fn flavours(&self, tier: Tier) -> Vec<&'static str> { if tier == Tier::Thorough { vec!["chk", "asan"] } else { vec!["chk"] } }

  fn gen(&self, tier: Tier, seed: u64) -> Vec<Case> {
    let mut out = Vec::new();
    let mut all: Vec<(usize, usize, Tiling)> = Vec::new();
    for r in 1..=4 { for c in 1..=4 { for t in tilings(r, c) { all.push((r, c, t)); } } }
    for k in ALL_KINDS.iter() {
      let full = matches!(*k, "f64") || tier == Tier::Thorough;
      for (ti, (r, c, t)) in all.iter().enumerate() {
        let name = tiling_name(t);
        let mut rng = Rng::keyed(seed, &format!("{}{}", k, name));
        let take = if full { if tier == Tier::Quick && *r == 4 && *c == 4 { rng.chance(1, 6) } else { true } } else { matches!(*k, "u8" | "i64" | "bool" | "string") && rng.chance(1, 12) || rng.chance(1, 60) };
        if !take { continue; }
        let nb: usize = t.iter().map(|x| x.1.len()).sum();
        let cell = format!("kind={};size={}x{};blocks={};tiling={}", k, r, c, nb, name);
        let s1 = rng.chance(1, 3);
        if let Some(input) = lazy(seed, &format!("{}{}ok", k, name), k, t, s1, None) { out.push(Case { id: format!("{};var=ok", cell), cell: format!("{};var=ok", cell), input }); }
        if rng.chance(1, if full { 3 } else { 2 }) {
          let m = *rng.pick(&["height", "width", "kind"]);
          if let Some(input) = lazy(seed, &format!("{}{}bad", k, name), k, t, false, Some(m)) { out.push(Case { id: format!("{};var=bad-{}", cell, m), cell: format!("{};var=bad-{}", cell, m), input }); }
        }
      }
      // larger dynamic tilings
      let nl = if tier == Tier::Quick { 6 } else { 60 };
      for i in 0..nl {
        let mut rng = Rng::keyed(seed, &format!("large{}{}", k, i));
        let r = 5 + rng.below(4) as usize; let c = 5 + rng.below(4) as usize;
        let hs = compositions(r, 4); let ws = compositions(c, 4);
        let h = rng.pick(&hs).clone();
        let t: Tiling = h.iter().map(|hh| (*hh, rng.pick(&ws).clone())).collect();
        let nb: usize = t.iter().map(|x| x.1.len()).sum();
        let cell = format!("kind={};size={}x{};blocks={};tiling={};var=ok", k, r, c, nb, tiling_name(&t));
        if let Some(input) = lazy(seed, &format!("large{}{}b", k, i), k, &t, false, None) { out.push(Case { id: cell.clone(), cell, input }); }
      }
      // many blocks: 5-8 block rows and / or 5-8 blocks in a row (the n-ary kernels; 1-4 entries have kernels of their own)
      let nm = if tier == Tier::Quick { 20 } else { 200 };
      for i in 0..nm {
        let mut rng = Rng::keyed(seed, &format!("many{}{}", k, i));
        // i%4: 0 = one block per row (pure n-ary vertical), 1 = a single row of many blocks (pure n-ary horizontal), 2/3 = mixed
        let nrows = if i % 4 == 1 { 1 } else if i % 4 == 3 { 1 + rng.below(3) as usize } else { 5 + rng.below(4) as usize };
        let t: Tiling = {
          let per_row: Vec<usize> = (0..nrows).map(|_| if i % 4 == 0 { 1 } else if i % 4 == 2 { 1 + rng.below(3) as usize } else { 5 + rng.below(4) as usize }).collect();
          let cols = per_row.iter().max().unwrap() + rng.below(4) as usize;
          per_row.iter().map(|n| { let mut ws = vec![1usize; *n]; for _ in 0..(cols - n) { let j = rng.below(*n as u64) as usize; ws[j] += 1; } (1 + rng.below(3) as usize, ws) }).collect()
        };
        let (r, c): (usize, usize) = (t.iter().map(|x| x.0).sum(), t[0].1.iter().sum());
        let nb: usize = t.iter().map(|x| x.1.len()).sum();
        let cell = format!("kind={};size={}x{};blocks={};tiling={}", k, r, c, nb, tiling_name(&t));
        let s1 = rng.chance(1, 3);
        if let Some(input) = lazy(seed, &format!("many{}{}ok", k, i), k, &t, s1, None) { out.push(Case { id: format!("{};var=ok", cell), cell: format!("{};var=ok", cell), input }); }
        if rng.chance(1, 3) { let m = *rng.pick(&["height", "width", "kind"]); if let Some(input) = lazy(seed, &format!("many{}{}bad", k, i), k, &t, false, Some(m)) { out.push(Case { id: format!("{};var=bad-{}", cell, m), cell: format!("{};var=bad-{}", cell, m), input }); } }
      }
    }
    out
  }

  fn run(&self, case: &Case, _flavour: &str) -> Outcome {
    let k = case.input["kind"].as_str().unwrap();
    let t: Tiling = serde_json::from_value(case.input["tiling"].clone()).unwrap();
    let mut rng = Rng::keyed(case.input["seed"].as_u64().unwrap(), case.input["key"].as_str().unwrap());
    let Some((built, _)) = build(k, &t, &mut rng, case.input["s1"].as_bool().unwrap(), case.input["mutate"].as_str()) else { return Outcome::inconclusive("harness-build", case.id.clone()) };
    let blocks: BTreeMap<String, CVal> = serde_json::from_value(built["blocks"].clone()).unwrap();
    let mut src = built["src"].as_str().unwrap().to_string();
    let mut s = Sess::new();
    for (n, v) in blocks.iter() { s.bind(n, v, false); }
    // block forms: the kernels treat variables (references) and plain values differently, so in two thirds of the valid cases
    // each block is written (by a hash of the case id and its position) as a variable, as an inline literal - provided the
    // literal alone evaluates to exactly the block - or, for matrix blocks, as a slice expression b[:,:]
    let h = case.id.bytes().fold(0xcbf29ce484222325u64, |h, b| (h ^ b as u64).wrapping_mul(0x100000001b3));
    let mut forms = String::new();
    // element separators: blanks as generated, or commas (by the hash of the case id; applied while the text holds names only)
    let commas = (h >> 57) & 3 == 1;
    if commas { src = src.replace(' ', ", ").replace(";, ", "; "); }
    if built["expect"].is_null() || h % 3 == 0 { forms.push_str("all-variables"); } else {
      for (i, (n, v)) in blocks.iter().enumerate() {
        let pick = (h >> (3 + 2 * (i % 28))) & 3;
        let repl = match pick {
          1 | 2 => lit(v).filter(|l| !l.starts_with('-') && !l.contains(" -")).filter(|l| matches!(s.eval(l), Ev::Ok(ref pv) if pv == v)),
          3 if v.is_matrix() && v.shape().0 > 1 && v.shape().1 > 1 => Some(format!("{}[:,:]", n)).filter(|e| matches!(s.eval(e), Ev::Ok(ref pv) if pv == v)),
          _ => None,
        };
        forms.push(match (&repl, pick) { (Some(_), 3) => 's', (Some(_), _) => 'l', _ => 'v' });
        if let Some(r) = repl { src = replace_name(&src, n, &r); }
      }
    }
    // row separators: `; ` as generated, `;` + newline, or a bare newline (by the hash of the case id)
    match (h >> 61) & 3 { 1 => { src = src.replace("; ", ";\n "); forms.push_str("+sep:semicolon-newline"); } 2 => { src = src.replace("; ", "\n "); forms.push_str("+sep:newline"); } 3 if commas => { src = src.replace("; ", ",\n "); forms.push_str("+sep:comma-newline"); } _ => {} }
    if commas { forms.push_str("+commas"); }
    let src = src.as_str();
    let res = s.eval(src);
    let arm = s.last_arm();
    let show_blocks = || blocks.iter().map(|(n, v)| format!("{}={}", n, v.show())).collect::<Vec<_>>().join(", ");
    match &res { Ev::Panic(m) => return Outcome::violated("panic-escaped", format!("{}: {}", src, m)), Ev::ParseErr(m) => return Outcome::inconclusive("harness-parse", format!("{} {}", src, m)), _ => {} }
    if built["expect"].is_null() {
      return match res { Ev::Ok(v) => Outcome::violated("value-instead-of-error", format!("{} with {} -> {}", src, show_blocks(), v.show())), _ => Outcome::held().tag("rejected") };
    }
    let want: CVal = serde_json::from_value(built["expect"].clone()).unwrap();
    let nontrivial = blocks.len() > 1;
    match res {
      Ev::Ok(v) => {
        let ok = v == want || (blocks.len() == 1 && want.elems().len() == 1 && v.elems() == want.elems());
        if ok { let mut o = if nontrivial { Outcome::held() } else { Outcome::trivial() }; o.tags.push(format!("arm:{}", arm.split_whitespace().next().unwrap_or(""))); o.tags.push(format!("blockforms:{}", if forms == "all-variables" { "variables" } else if forms.contains('l') || forms.contains('s') { "mixed" } else { "variables" })); return o; }
        let class = if v.shape() != want.shape() { "wrong-shape" } else if v.elem_kind() != want.elem_kind() { "wrong-kind" } else { "wrong-element" };
        Outcome::violated(class, format!("{} with {} -> {} expected {}", src, show_blocks(), v.show(), want.show()))
      }
      Ev::Err(kind, msg) => Outcome::violated("error-instead-of-value", format!("{} with {} failed: {} {}", src, show_blocks(), kind, msg.chars().take(120).collect::<String>())),
      _ => unreachable!(),
    }
  }
}

fn replace_name(text: &str, name: &str, repl: &str) -> String {
  let chars: Vec<char> = text.chars().collect(); let n: Vec<char> = name.chars().collect(); let mut out = String::new(); let mut i = 0;
  let word = |c: char| c.is_alphanumeric() || c == '_';
  while i < chars.len() {
    if chars[i..].starts_with(&n[..]) && (i == 0 || !word(chars[i - 1])) && (i + n.len() == chars.len() || !word(chars[i + n.len()])) { out.push_str(repl); i += n.len(); } else { out.push(chars[i]); i += 1; }
  }
  out
}
