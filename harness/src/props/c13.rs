//! C13 Numeric literals denote the number they spell.

use crate::canon::*;
use crate::fw::*;
use crate::refm::*;
use crate::sess::*;
use serde_json::{json, Value as J};

pub struct C13;

fn digits(rng: &mut Rng, n: usize, first_nonzero: bool) -> String {
  let mut s = String::new();
  for i in 0..n { let d = if i == 0 && first_nonzero { 1 + rng.below(9) } else { rng.below(10) }; s.push((b'0' + d as u8) as char); }
  s
}
fn dg(rng: &mut Rng, lo: usize, span: u64, nz: bool) -> String { let n = lo + rng.below(span) as usize; digits(rng, n, nz) }
fn with_underscores(s: &str, rng: &mut Rng) -> String {
  // digit-sequence := digit, *((underscore, digit) | digit)
  let cs: Vec<char> = s.chars().collect();
  let mut out = String::new();
  for (i, c) in cs.iter().enumerate() { if i > 0 && rng.chance(1, 3) { out.push('_'); } out.push(*c); }
  out
}

/// expectation: {"exact": CVal} | {"range": {"kind","value_text"}} handled in run
fn push(out: &mut Vec<Case>, cell: String, n: usize, text: String, expect: J) {
  out.push(Case { id: format!("{};n={}", cell, n), cell, input: json!({"text": text, "expect": expect}) });
}

fn f64_of(text: &str) -> f64 { text.replace('_', "").parse::<f64>().unwrap() }

impl Prop for C13 {
  fn id(&self) -> &'static str { "C13" }
  fn rule(&self) -> String { "literal spellings generated from specification section 4.2: cells = form {integer, float, leading-dot float, scientific (integer|fractional mantissa x e|E x sign none|+|- x integer|fractional exponent), 0x/0o/0b/0d, rational, complex} x kind suffix / annotation x magnitude class {small, >= 2^53, kind max-1 / max / max+1 / far over} x {plain, underscores, negated}; digits random inside the cell. Each literal is interpreted alone and compared with Rust's correctly rounded str::parse / exact u128-i128 arithmetic / gcd reduction. Non-trivial = literal evaluated (value or error) and an exact expectation existed".into() }
  fn assumptions(&self) -> Vec<String> { vec![
    "out-of-range suffixed/annotated integers may clamp to the kind bound (documented: 1234<u8> saturates to 255) or be rejected".into(),
    "fractional exponents are accepted within 4 ulp of m * 10^e computed with powf".into(),
    "a spelling generated from the specification grammar that is in range must not evaluate to an error".into(),
  ] }
  fn floor(&self, tier: Tier) -> usize { if tier == Tier::Quick { 1500 } else { 20000 } }
  fn flavours(&self, tier: Tier) -> Vec<&'static str> { if tier == Tier::Thorough { vec!["chk", "rel"] } else { vec!["chk"] } }

  fn gen(&self, tier: Tier, seed: u64) -> Vec<Case> {
    let mut out = Vec::new();
    let reps = if tier == Tier::Quick { 25 } else { 400 };
    let mut rng = Rng::keyed(seed, "c13");
    let mut uniq = 0usize;
    for n in 0..reps {
      // plain integers (default kind f64)
      for (mag, len) in [("small", 1 + rng.below(6) as usize), ("mid", 8 + rng.below(7) as usize), ("ge2p53", 17 + rng.below(3) as usize), ("huge", 25 + rng.below(10) as usize)] {
        let d = digits(&mut rng, len, true);
        push(&mut out, format!("form=int;sfx=none;mag={};style=plain", mag), n, d.clone(), json!({"exact": sc_f64(f64_of(&d))}));
        push(&mut out, format!("form=int;sfx=none;mag={};style=neg", mag), n, format!("-{}", d), json!({"exact": sc_f64(-f64_of(&d))}));
      }
      for v in ["9007199254740992", "9007199254740993", "9007199254740994", "0", "00", "007"] { push(&mut out, "form=int;sfx=none;mag=boundary;style=plain".into(), { uniq += 1; n * 1000 + uniq }, v.to_string(), json!({"exact": sc_f64(f64_of(v))})); }
      // floats
      for style in ["plain", "underscore", "neg"] {
        let a = dg(&mut rng, 1, 8, false); let b = dg(&mut rng, 1, 12, false);
        let (a2, b2) = if style == "underscore" { (with_underscores(&a, &mut rng), with_underscores(&b, &mut rng)) } else { (a.clone(), b.clone()) };
        let t = format!("{}.{}", a2, b2);
        let v = f64_of(&t);
        push(&mut out, format!("form=float;sfx=none;mag=any;style={}", style), n, if style == "neg" { format!("-{}", t) } else { t.clone() }, json!({"exact": sc_f64(if style == "neg" { -v } else { v })}));
        let t2 = format!(".{}", b2);
        let v2 = f64_of(&format!("0{}", t2));
        push(&mut out, format!("form=dotfloat;sfx=none;mag=any;style={}", style), n, if style == "neg" { format!("-{}", t2) } else { t2.clone() }, json!({"exact": sc_f64(if style == "neg" { -v2 } else { v2 })}));
      }
      for v in ["0.1", "0.3", "0.0", "1.0", "123456789.987654321", "0.000001", "179769313486231570000000000000000000000.5", "4.9406564584124654"] { push(&mut out, "form=float;sfx=none;mag=boundary;style=plain".into(), { uniq += 1; n * 1000 + uniq }, v.to_string(), json!({"exact": sc_f64(f64_of(v))})); }
      // scientific
      for mant in ["int", "frac"] { for e in ["e", "E"] { for sign in ["", "+", "-"] { for ex in ["int", "frac"] {
        let m = if mant == "int" { dg(&mut rng, 1, 4, true) } else { format!("{}.{}", dg(&mut rng, 1, 3, false), dg(&mut rng, 1, 5, false)) };
        let x = if ex == "int" { format!("{}", rng.below(if sign == "-" { 30 } else { 25 })) } else { format!("{}.{}", rng.below(6), 1 + rng.below(9)) };
        let text = format!("{}{}{}{}", m, e, sign, x);
        let cell = format!("form=sci;mant={};e={};sign={};exp={}", mant, e, if sign.is_empty() { "none" } else if sign == "+" { "plus" } else { "minus" }, ex);
        if ex == "int" { let v = format!("{}e{}{}", m, if sign == "-" { "-" } else { "" }, x).parse::<f64>().unwrap(); push(&mut out, cell, n, text, json!({"exact": sc_f64(v)})); }
        else { let mv: f64 = m.parse().unwrap(); let xv: f64 = x.parse().unwrap(); let v = mv * 10f64.powf(if sign == "-" { -xv } else { xv }); push(&mut out, cell, n, text, json!({"near": v, "ulps": 4})); }
      } } } }
      for (t, v) in [("2.5e10", 2.5e10), ("1e-3", 1e-3), ("1e3", 1e3), ("1E+2", 1e2), ("1.5e308", 1.5e308)] { push(&mut out, "form=sci;spec-example".into(), { uniq += 1; n * 1000 + uniq }, t.to_string(), json!({"exact": sc_f64(v)})); }
      // based literals -> i64
      for (pfx, radix, cs) in [("0x", 16u32, "0123456789abcdefABCDEF"), ("0o", 8, "01234567"), ("0b", 2, "01"), ("0d", 10, "0123456789")] {
        for mag in ["small", "mid", "i64max", "over"] {
          let body: String = match mag {
            "small" => (0..1 + rng.below(3)).map(|_| *rng.pick(&cs.chars().collect::<Vec<_>>())).collect(),
            "mid" => (0..6 + rng.below(6)).map(|_| *rng.pick(&cs.chars().collect::<Vec<_>>())).collect(),
            "i64max" => match radix { 16 => "7fffffffffffffff".into(), 8 => "777777777777777777777".into(), 2 => "1".repeat(63), _ => "9223372036854775807".into() },
            _ => match radix { 16 => "8000000000000000".into(), 8 => "1000000000000000000000".into(), 2 => format!("1{}", "0".repeat(63)), _ => "9223372036854775808".into() },
          };
          let val = u128::from_str_radix(&body, radix).unwrap();
          let text = format!("{}{}", pfx, body);
          let cell = format!("form=based;pfx={};mag={};style=plain", pfx, mag);
          if val <= i64::MAX as u128 { push(&mut out, cell, n, text.clone(), json!({"exact": sc_i("i64", val as i128)})); push(&mut out, format!("form=based;pfx={};mag={};style=neg", pfx, mag), n, format!("-{}", text), json!({"exact": sc_i("i64", -(val as i128))})); }
          else { push(&mut out, cell, n, text, json!({"clamp_or_err": [sc_i("i64", i64::MAX as i128)], "exactkinds": ["i64"], "exactval": val.to_string()})); }
        }
      }
      // based literals with a character that is not a digit of the base: not a number of that base, must not evaluate to one
      for (pfx, good, bad) in [("0x", "1f", "g"), ("0x", "a", "z"), ("0o", "17", "8"), ("0o", "7", "9"), ("0b", "10", "2"), ("0b", "1", "O"), ("0b", "101", "9")] {
        for pos in ["end", "middle"] {
          let body = if pos == "end" { format!("{}{}", good, bad) } else { format!("{}{}{}", good, bad, good) };
          push(&mut out, format!("form=based;pfx={};mag=small;style=invalid-digit-{}", pfx, pos), { uniq += 1; n * 1000 + uniq }, format!("{}{}", pfx, body), json!({"must_err": true}));
        }
      }
      // rationals
      for style in ["plain", "reducible", "zero-den", "neg", "zero-num"] {
        let a = 1 + rng.below(999) as i128; let b = 1 + rng.below(99) as i128;
        let (t, exp): (String, J) = match style {
          "plain" => (format!("{}/{}", a, b), json!({"exact": rat(a, b)})),
          "reducible" => (format!("{}/{}", a * 6, b * 4), json!({"exact": rat(a * 6, b * 4)})),
          "zero-den" => (format!("{}/0", a), json!({"must_err": true})),
          "neg" => (format!("-{}/{}", a, b), json!({"exact": rat(-a, b)})),
          _ => (format!("0/{}", b), json!({"exact": rat(0, b)})),
        };
        push(&mut out, format!("form=rational;style={}", style), n, t, exp);
      }
      // complex
      for style in ["imag-i", "imag-j", "sum", "diff", "float-parts", "neg-real"] {
        let a = rng.below(50) as f64; let b = 1.0 + rng.below(50) as f64;
        let (t, re, im): (String, f64, f64) = match style {
          "imag-i" => (format!("{}i", b), 0.0, b), "imag-j" => (format!("{}j", b), 0.0, b),
          "sum" => (format!("{}+{}i", a, b), a, b), "diff" => (format!("{}-{}j", a, b), a, -b),
          "float-parts" => (format!("{:?}+{:?}i", a + 0.5, b + 0.25), a + 0.5, b + 0.25),
          _ => (format!("-{}+{}i", a + 1.0, b), -(a + 1.0), b),
        };
        push(&mut out, format!("form=complex;style={}", style), n, t, json!({"exact": sc_c(re, im)}));
      }
      // suffixed / annotated integers
      for k in INT_KINDS.iter().chain(["f32", "f64"].iter()) {
        let spellings: Vec<&str> = vec!["suffix", "annot", "annot-opt"];
        for sp in spellings {
          for mag in ["small", "ge2p53", "max-1", "max", "max+1", "far-over"] {
            let val: u128 = if is_int(k) { let m = int_max_u(k); match mag { "small" => rng.below(100) as u128, "ge2p53" => { if m <= (1u128 << 53) { continue; } (1u128 << 53) + 1 + 2 * rng.below(1000) as u128 } "max-1" => m - 1, "max" => m, "max+1" => { if *k == "u128" { continue; } m + 1 } _ => { if *k == "u128" { continue; } m.saturating_mul(3).saturating_add(7) } } }
                        else { match mag { "small" => rng.below(1000) as u128, "ge2p53" => (1u128 << 53) + 1, _ => continue } };
            let text = if sp == "suffix" { format!("{}{}", val, k) } else if sp == "annot-opt" { format!("{}<{}?>", val, k) } else { format!("{}<{}>", val, k) };
            let cell = format!("form=typed;spell={};kind={};mag={}", sp, k, mag);
            let exp = if *k == "f64" { json!({"exact": sc_f64(val.to_string().parse().unwrap())}) } else if *k == "f32" { json!({"exact": sc_f32(val.to_string().parse().unwrap())}) }
              else if val <= int_max_u(k) { json!({"exact": if is_unsigned(k) { sc_u(k, val) } else { sc_i(k, val as i128) }}) }
              else { json!({"clamp_or_err": [if is_unsigned(k) { sc_u(k, int_max_u(k)) } else { sc_i(k, int_max_u(k) as i128) }]}) };
            push(&mut out, cell, n, text, exp);
          }
          // negative literal of a signed kind: the literal grammar includes the dash
          if is_signed(k) {
            let m = int_min(k).unsigned_abs();
            for (mag, val) in [("neg-small", 1 + rng.below(100) as u128), ("neg-min", m), ("neg-min+1", m - 1)] {
              push(&mut out, format!("form=typed;spell={};kind={};mag={}", sp, k, mag), n, if sp == "suffix" { format!("-{}{}", val, k) } else if sp == "annot-opt" { format!("-{}<{}?>", val, k) } else { format!("-{}<{}>", val, k) }, json!({"exact": sc_i(k, (val as i128).wrapping_neg())}));
            }
          }
        }
      }
    }
    out
  }

  fn run(&self, case: &Case, _flavour: &str) -> Outcome {
    let text = case.input["text"].as_str().unwrap();
    let exp = &case.input["expect"];
    let mut s = Sess::new();
    let res = s.eval(text);
    let shown = res.show();
    match &res {
      Ev::Panic(m) => return Outcome::violated("panic-escaped", format!("`{}`: {}", text, m)),
      _ => {}
    }
    if exp.get("must_err").is_some() {
      return match res { Ev::Ok(v) => Outcome::violated("value-instead-of-error", format!("`{}` evaluated to {}", text, v.show())), _ => Outcome::held().tag("rejected") };
    }
    if let Some(c) = exp.get("clamp_or_err") {
      let allowed: Vec<CVal> = serde_json::from_value(c.clone()).unwrap();
      return match res { Ev::Ok(v) => if allowed.contains(&v) { Outcome::held().tag("clamped") } else { Outcome::violated("unrelated-value", format!("out-of-range `{}` evaluated to {} (allowed: clamp to {} or an error)", text, v.show(), allowed[0].show())) }, _ => Outcome::held().tag("rejected") };
    }
    let rejected = !res.is_ok();
    if rejected {
      let how = match &res { Ev::ParseErr(_) => "parse", _ => "eval" };
      return Outcome::violated(&format!("error-instead-of-value:{}", how), format!("valid in-range spelling `{}` gave {}", text, shown));
    }
    let v = res.ok().unwrap();
    if let Some(e) = exp.get("exact") {
      let want: CVal = serde_json::from_value(e.clone()).unwrap();
      if *v != want {
        let class = if v.kind_str() != want.kind_str() { "wrong-kind" } else { classify_miss(v, &want) };
        return Outcome::violated(class, format!("`{}` evaluated to {} expected {}", text, v.show(), want.show()));
      }
      return Outcome::held();
    }
    if let Some(n) = exp.get("near") {
      let want = n.as_f64().unwrap(); let ulps = exp["ulps"].as_u64().unwrap();
      return match v { CVal::S(k, Sc::F64(b)) if k == "f64" && near_f64(want, f64::from_bits(*b), ulps) => Outcome::held(), _ => Outcome::violated("wrong-value", format!("`{}` evaluated to {} expected about {:?}", text, v.show(), want)) };
    }
    Outcome::inconclusive("no-expectation", text.to_string())
  }
}

/// value-free refinement of a wrong value: how it relates to the expected one
fn classify_miss(got: &CVal, want: &CVal) -> &'static str {
  match (got, want) {
    (CVal::S(_, Sc::F64(a)), CVal::S(_, Sc::F64(b))) => if near_f64(f64::from_bits(*a), f64::from_bits(*b), 4) { "inexact-rounding" } else { "wrong-value" },
    (CVal::S(_, Sc::U(a)), CVal::S(k, Sc::U(b))) => { let r = (*b as f64) as u128; if *a == r.min(int_max_u(k)) { "rounded-through-f64" } else { "wrong-value" } }
    (CVal::S(_, Sc::I(a)), CVal::S(k, Sc::I(b))) => {
      let m = int_max_u(k) as i128;
      if *b == int_min(k) && *a == -m { "negated-after-clamp" }
      else { let r = (*b as f64) as i128; if *a == r.min(m) { "rounded-through-f64" } else { "wrong-value" } }
    }
    (CVal::S(_, Sc::C(ar, ai)), CVal::S(_, Sc::C(br, bi))) => if ar == br && f64::from_bits(*ai) == -f64::from_bits(*bi) { "conjugated" } else { "wrong-value" },
    _ => "wrong-value",
  }
}
