//! C03 Indexing reads exactly the addressed elements (1-based, column-major).
//! Shared index-form machinery is also used by C04.

use crate::canon::*;
use crate::fw::*;
use crate::refm::*;
use crate::sess::*;
use serde::{Deserialize, Serialize};
use serde_json::{json, Value as J};
use std::collections::BTreeMap;

pub struct C03;

#[derive(Clone, Debug, Serialize, Deserialize, PartialEq)]
pub enum Sel { S(usize), V(Vec<usize>), R(usize, usize, bool), All, M(Vec<bool>), /// a negative scalar index -n (never addresses an element)
  N(usize),
  /// a logical mask written as a 2-D matrix with `rows` rows (the flags are stored column-major): as a single subscript it addresses the
  /// linear positions of its true entries
  M2(usize, Vec<bool>) }

impl Sel {
  pub fn form(&self) -> &'static str { match self { Sel::S(_) | Sel::N(_) => "s", Sel::V(_) => "v", Sel::R(_, _, true) => "ri", Sel::R(_, _, false) => "rx", Sel::All => "a", Sel::M(_) => "m", Sel::M2(..) => "mm" } }
  /// source text; `ik` = literal kind used for numeric indices ("f64" plain, "u8", "u64")
  pub fn text(&self, ik: &str) -> String {
    let n = |i: usize| match ik { "u8" => format!("{}u8", i), "u64" => format!("{}u64", i), "i64" => format!("{}<i64>", i), _ => format!("{}", i) };
    match self {
      Sel::S(i) => n(*i),
      Sel::N(i) => if ik == "i64" { format!("-{}<i64>", i) } else { format!("-{}", i) },
      Sel::V(v) => format!("[{}]", v.iter().map(|i| n(*i)).collect::<Vec<_>>().join(" ")),
      Sel::R(a, b, incl) => format!("{}{}{}", n(*a), if *incl { "..=" } else { ".." }, n(*b)),
      Sel::All => ":".into(),
      Sel::M(m) => format!("[{}]", m.iter().map(|b| if *b { "true" } else { "false" }).collect::<Vec<_>>().join(" ")),
      Sel::M2(r, m) => { let c = m.len() / r; format!("[{}]", (0..*r).map(|i| (0..c).map(|j| if m[j * r + i] { "true" } else { "false" }).collect::<Vec<_>>().join(" ")).collect::<Vec<_>>().join("; ")) }
    }
  }
  /// 1-based positions addressed within an extent; None if the selector addresses nothing valid
  pub fn resolve(&self, extent: usize) -> Option<Vec<usize>> {
    match self {
      Sel::S(i) => if *i >= 1 && *i <= extent { Some(vec![*i]) } else { None },
      Sel::V(v) => if v.iter().all(|i| *i >= 1 && *i <= extent) { Some(v.clone()) } else { None },
      Sel::R(a, b, incl) => { let hi = if *incl { *b } else { b.checked_sub(1)? }; if *a >= 1 && hi <= extent && *a <= hi { Some((*a..=hi).collect()) } else { None } }
      Sel::All => Some((1..=extent).collect()),
      Sel::N(_) => None,
      Sel::M(m) | Sel::M2(_, m) => if m.len() == extent { Some(m.iter().enumerate().filter(|(_, b)| **b).map(|(i, _)| i + 1).collect()) } else { None },
    }
  }
  pub fn is_scalar(&self) -> bool { matches!(self, Sel::S(_) | Sel::N(_)) }
}

pub const SHAPES: [(usize, usize); 11] = [(1, 1), (1, 3), (3, 1), (2, 2), (2, 3), (3, 2), (3, 3), (4, 4), (1, 9), (7, 1), (5, 6)];
pub const FORMS1: [&str; 7] = ["s", "v", "ri", "rx", "a", "m", "mm"];
pub const FORMS2: [&str; 5] = ["s", "v", "ri", "a", "m"];

/// in-range selector of a given form
pub fn gen_sel(form: &str, extent: usize, rng: &mut Rng) -> Sel {
  match form {
    "s" => Sel::S(1 + rng.below(extent as u64) as usize),
    "v" => { let n = 1 + rng.below(extent.min(4) as u64 + 1) as usize; let mut v: Vec<usize> = (0..n).map(|_| 1 + rng.below(extent as u64) as usize).collect(); if n >= 2 && rng.chance(1, 2) { v[n - 1] = v[0]; } Sel::V(v) }
    "ri" => { let a = 1 + rng.below(extent as u64) as usize; let b = a + rng.below((extent - a + 1) as u64) as usize; Sel::R(a, b, true) }
    "rx" => { let a = 1 + rng.below(extent as u64) as usize; let b = a + 1 + rng.below((extent - a + 1) as u64) as usize; Sel::R(a, b, false) }
    "a" => Sel::All,
    // one mask in six selects nothing (the result is an empty matrix), the others select at least one position
    "m" => { if rng.chance(1, 6) { return Sel::M(vec![false; extent]); } let mut m: Vec<bool> = (0..extent).map(|_| rng.chance(1, 2)).collect(); let j = rng.below(extent as u64) as usize; m[j] = true; Sel::M(m) }
    // a mask written as a genuine 2-D matrix (rows x cols = extent, both >= 2); extents that have no such factorisation get a vector mask
    "mm" => {
      let divs: Vec<usize> = (2..extent).filter(|d| extent % d == 0 && extent / d >= 2).collect();
      if divs.is_empty() { return gen_sel("m", extent, rng); }
      let r = *rng.pick(&divs);
      if rng.chance(1, 6) { return Sel::M2(r, vec![false; extent]); }
      let mut m: Vec<bool> = (0..extent).map(|_| rng.chance(1, 2)).collect(); let j = rng.below(extent as u64) as usize; m[j] = true; Sel::M2(r, m)
    }
    _ => panic!("form"),
  }
}
/// selector with distinct positions (for vector assignment)
pub fn gen_sel_distinct(form: &str, extent: usize, rng: &mut Rng) -> Sel {
  match form {
    "v" => { let mut all: Vec<usize> = (1..=extent).collect(); rng.shuffle(&mut all); let n = 1 + rng.below(extent.min(4) as u64) as usize; all.truncate(n); Sel::V(all) }
    f => gen_sel(f, extent, rng),
  }
}

/// out-of-range variants of a selector: (label, selector)
pub fn oor_variants(sel: &Sel, extent: usize) -> Vec<(&'static str, Sel)> {
  match sel {
    Sel::S(i) => vec![("zero", Sel::S(0)), ("past", Sel::S(extent + 1)), ("negative", Sel::N((*i).max(1))), ("negative-one", Sel::N(1))],
    Sel::N(_) => vec![],
    Sel::V(v) => { let mut a = v.clone(); a[0] = 0; let mut b = v.clone(); let l = b.len() - 1; b[l] = extent + 1; let mut c = v.clone(); c[0] = extent + 1; vec![("first-zero", Sel::V(a)), ("last-past", Sel::V(b)), ("first-past", Sel::V(c))] }
    Sel::R(a, b, true) => vec![("end-past", Sel::R(*a, extent + 1, true)), ("start-zero", Sel::R(0, *b, true))],
    Sel::R(a, b, false) => vec![("end-past", Sel::R(*a, extent + 2, false)), ("start-zero", Sel::R(0, *b, false))],
    Sel::All => vec![],
    Sel::M(m) => { let mut long = m.clone(); long.push(true); let mut long_f = m.clone(); long_f.push(false); let mut short = m.clone(); short.pop(); let mut v = vec![("mask-long", Sel::M(long)), ("mask-long-false", Sel::M(long_f))]; if short.len() >= 1 && short.iter().any(|b| *b) { v.push(("mask-short", Sel::M(short))); } v }
    // one more column / one column fewer: the number of flags no longer equals the number of elements
    Sel::M2(r, m) => { let mut long = m.clone(); for i in 0..*r { long.push(i == 0); } let mut v = vec![("mask2d-long", Sel::M2(*r, long))]; if m.len() / r >= 3 { let short: Vec<bool> = m[..m.len() - r].to_vec(); if short.iter().any(|b| *b) { v.push(("mask2d-short", Sel::M2(*r, short))); } } v }
  }
}

/// matrix whose element = its own linear index (encoded in the kind), so that any mis-selection is visible
pub fn index_matrix(k: &str, r: usize, c: usize, salt: i64) -> CVal {
  let mut e = Vec::new();
  for lin in 0..(r * c) as i64 {
    let sc = match k { "bool" => Sc::B((lin * 7 + salt) % 3 != 0), _ => small_val(k, 10 + lin + salt) };
    e.push(CVal::S(k.to_string(), sc));
  }
  CVal::M(k.to_string(), r, c, e)
}

#[derive(Clone, Debug, Serialize, Deserialize)]
pub struct Expect { pub scalar: bool, pub rows: usize, pub cols: usize, pub elems: Vec<CVal>, pub shape_known: bool }

/// reference selection. `sels.len()` is 1 or 2.
pub fn ref_select(x: &CVal, sels: &[Sel]) -> Option<Expect> {
  let (r, c, e) = match x { CVal::M(_, r, c, e) => (*r, *c, e), _ => return None };
  if sels.len() == 1 {
    let pos = sels[0].resolve(r * c)?;
    let elems: Vec<CVal> = pos.iter().map(|p| e[p - 1].clone()).collect();
    Some(Expect { scalar: sels[0].is_scalar(), rows: elems.len(), cols: 1, elems, shape_known: false })
  } else {
    let rp = sels[0].resolve(r)?;
    let cp = sels[1].resolve(c)?;
    let mut elems = Vec::new();
    for j in cp.iter() { for i in rp.iter() { elems.push(e[(j - 1) * r + (i - 1)].clone()); } }
    Some(Expect { scalar: sels[0].is_scalar() && sels[1].is_scalar(), rows: rp.len(), cols: cp.len(), elems, shape_known: true })
  }
}

pub fn index_text(sels: &[Sel], ik: &str) -> String { format!("[{}]", sels.iter().map(|s| s.text(ik)).collect::<Vec<_>>().join(",")) }

/// forms the documentation lists explicitly (docs/reference/indexing.mec): these must work on in-range input
pub fn documented(forms: &[&str]) -> bool {
  match forms {
    ["s"] | ["m"] => true,
    ["s", "s"] | ["s", "a"] | ["a", "s"] | ["ri", "a"] | ["v", "a"] | ["v", "v"] | ["m", "a"] | ["a", "m"] | ["m", "m"] => true,
    _ => false,
  }
}

/// compares an evaluation result with the reference selection
pub fn judge_read(res: &Ev, exp: &Expect, k: &str) -> Result<(), (String, String)> {
  match res {
    Ev::Ok(v) => {
      if exp.scalar {
        if v.is_matrix() { return Err(("wrong-shape".into(), format!("scalar index returned {}", v.show()))); }
        if v != &exp.elems[0] { return Err(("wrong-element".into(), format!("got {} expected {}", v.show(), exp.elems[0].show()))); }
        return Ok(());
      }
      let els = v.elems();
      if els.len() != exp.elems.len() { return Err(("wrong-count".into(), format!("got {} elements ({}) expected {}", els.len(), v.show(), exp.elems.len()))); }
      if els != exp.elems { return Err(("wrong-element".into(), format!("got {} expected [{}]", v.show(), exp.elems.iter().map(|x| x.show()).collect::<Vec<_>>().join(" ")))); }
      if v.elem_kind() != k && !(els.len() == 1 && !v.is_matrix()) { return Err(("wrong-kind".into(), format!("element kind {} expected {}", v.elem_kind(), k))); }
      let (gr, gc) = v.shape();
      if exp.shape_known { if (gr, gc) != (exp.rows, exp.cols) { return Err(("wrong-shape".into(), format!("shape {}x{} expected {}x{}", gr, gc, exp.rows, exp.cols))); } }
      else if !(gr == 1 || gc == 1) { return Err(("wrong-shape".into(), format!("1-D selection returned {}x{}", gr, gc))); }
      Ok(())
    }
    Ev::Err(kind, msg) => Err(("error-instead-of-value".into(), format!("{}: {}", kind, msg.chars().take(120).collect::<String>()))),
    Ev::ParseErr(m) => Err(("harness-parse".into(), m.clone())),
    Ev::Panic(m) => Err(("panic-escaped".into(), m.clone())),
  }
}

pub const SRC_FORMS3: [&str; 6] = ["mut", "copy", "field", "tuple", "litdef", "chain"];

/// makes the API-bound matrix `x` reachable through another source form; returns the text that denotes it
pub fn source_form3(s: &mut Sess, x: &CVal, form: &str) -> Option<String> {
  let (r, c) = x.shape();
  match form {
    "mut" => { s.bind("xm", x, true); Some("xm".into()) }
    "copy" => { if !s.eval("xc := x").is_ok() { return None; } Some("xc".into()) }
    "field" => { if !s.eval("xr := {f: x, g: 1}").is_ok() { return None; } Some("xr.f".into()) }
    "tuple" => { if !s.eval("xt := (true, x)").is_ok() { return None; } Some("xt.2".into()) }
    "litdef" => { let l = lit(x)?; if !s.eval(&format!("xl := {}", l)).is_ok() { return None; } Some("xl".into()) }
    "chain" => Some(format!("x[1..={},1..={}]", r, c)),
    _ => None,
  }
}

fn run_ctx(case: &Case) -> Outcome {
  let k = case.input["kind"].as_str().unwrap().to_string();
  let x: CVal = serde_json::from_value(case.input["x"].clone()).unwrap();
  let (r, c) = x.shape();
  let ctx = case.input["ctx"].as_str().unwrap();
  let pat = case.input["pat"].as_str().unwrap();
  let (i0, j0) = (case.input["i0"].as_u64().unwrap() as usize, case.input["j0"].as_u64().unwrap() as usize);
  // decoys: other valid positions (a wrong lookup yields another element, not an error)
  let (di, dj) = (i0 % r + 1, j0 % c + 1);
  // body with local names i, j  |  the same body with the bound values written as literals  |  selectors for the reference
  let (body, lit_body, sels): (String, String, Vec<Sel>) = match pat {
    "ij" => ("x[i,j]".into(), format!("x[{},{}]", i0, j0), vec![Sel::S(i0), Sel::S(j0)]),
    "Lj" => (format!("x[{},j]", di), format!("x[{},{}]", di, j0), vec![Sel::S(di), Sel::S(j0)]),
    "iL" => (format!("x[i,{}]", dj), format!("x[{},{}]", i0, dj), vec![Sel::S(i0), Sel::S(dj)]),
    "aj" => ("x[:,j]".into(), format!("x[:,{}]", j0), vec![Sel::All, Sel::S(j0)]),
    "ia" => ("x[i,:]".into(), format!("x[{},:]", i0), vec![Sel::S(i0), Sel::All]),
    "rj" => (format!("x[1..={},j]", r.min(2)), format!("x[1..={},{}]", r.min(2), j0), vec![Sel::R(1, r.min(2), true), Sel::S(j0)]),
    "ir" => (format!("x[i,1..={}]", c.min(2)), format!("x[{},1..={}]", i0, c.min(2)), vec![Sel::S(i0), Sel::R(1, c.min(2), true)]),
    _ => ("x[j]".into(), format!("x[{}]", (j0 - 1) * r + i0), vec![Sel::S((j0 - 1) * r + i0)]),
  };
  let scalar_result = sels.iter().all(|s| s.is_scalar());
  // the linear form binds j to the linear position
  let jbind = if pat == "lin" { (j0 - 1) * r + i0 } else { j0 };
  let exp = ref_select(&x, &sels).expect("in range");
  let wrap = |b: &str| -> Option<String> {
    match ctx {
      // one generator variable: both names denote it, so the diagonal element is addressed (needs i0 = j0 within both extents)
      "compr" => if !scalar_result { None } else if pat == "ij" { None } else if pat == "iL" { Some(format!("[{} | i <- [{}]]", b, i0)) } else { Some(format!("[{} | j <- [{}]]", b, jbind)) },
      "match" => Some(format!("res := ({}, {})?\n  | (i, j) => {}\n  | * => x[1].", i0, jbind, b)),
      // (a function arm does not see globals inside a subscripted name: the matrix is passed as a parameter named x)
      _ => Some(format!("pick(x<[{k}]>, i<f64>, j<f64>) => <{o}>\n  | (x, i, j) => {b}.\n\npick(x, {i}, {j})", k = k, o = if scalar_result { k.clone() } else { format!("[{}]", k) }, b = b, i = i0, j = jbind)),
    }
  };
  let (Some(text), Some(probe)) = (wrap(&body), wrap(&lit_body)) else { return Outcome::trivial().tag("ctx-not-applicable") };
  let setup = |s: &mut Sess| { s.bind("x", &x, false); s.bind("i", &CVal::S("f64".into(), Sc::f64(di as f64)), false); s.bind("j", &CVal::S("f64".into(), Sc::f64(if pat == "lin" { ((dj - 1) * r + di) as f64 } else { dj as f64 })), false); };
  let unwrap1 = |e: Ev| -> Ev { if ctx == "compr" { match e { Ev::Ok(v) if v.is_matrix() && v.elems().len() == 1 => Ev::Ok(v.elems()[0].clone()), o => o } } else { e } };
  // the construct with the positions written as literals must work first (so that only the lookup of the local names is under test)
  let mut p = Sess::new(); setup(&mut p);
  let pr = unwrap1(p.eval(&probe));
  if judge_read(&pr, &exp, &k).is_err() { return Outcome::trivial().tag(format!("ctx-unsupported:{}:{}", ctx, pat)); }
  let mut s = Sess::new(); setup(&mut s);
  let before = s.snapshot();
  let res = unwrap1(s.eval(&text));
  let mut after = s.snapshot(); after.remove("res");
  if after != before { return Outcome::violated("source-modified", format!("symbols changed by {}: {} -> {}", text, show_snapshot(&before), show_snapshot(&after))); }
  match judge_read(&res, &exp, &k) {
    Ok(()) => Outcome::held().tag(format!("ctx:{}:{}", ctx, pat)),
    Err((class, detail)) => if class == "harness-parse" { Outcome::inconclusive("harness-parse", format!("{} {}", text, detail)) } else { Outcome::violated(&format!("{}:local-subscript", class), format!("{} on {} with globals i = {} j = {}: {}", text, x.show(), di, dj, detail)) },
  }
}

impl Prop for C03 {
  fn id(&self) -> &'static str { "C03" }
  fn rule(&self) -> String { "cells = element kind x matrix shape x index form (6 one-dimensional, 25 two-dimensional pairs) x variant (in-range | each boundary out-of-range variant of each position) x index literal kind; matrix elements encode their own linear index. Non-trivial = the form is supported (in-range read succeeded) so that selection / rejection was actually compared with the 1-based column-major model".into() }
  fn assumptions(&self) -> Vec<String> { vec![
    "1-D selections: only element sequence, count and vector-ness are demanded (documentation is silent on orientation); 2-D selections: shape |rows| x |cols| as documented".into(),
    "a form is 'supported' if its in-range read succeeds; forms listed in docs/reference/indexing.mec must be supported".into(),
  ] }
  fn floor(&self, tier: Tier) -> usize { if tier == Tier::Quick { 2500 } else { 10000 } }
  fn flavours(&self, tier: Tier) -> Vec<&'static str> { if tier == Tier::Thorough { vec!["chk", "rel", "asan"] } else { vec!["chk"] } }

  fn gen(&self, tier: Tier, seed: u64) -> Vec<Case> {
    let mut out = Vec::new();
    let draws = if tier == Tier::Quick { 1 } else { 3 };
    for k in ALL_KINDS.iter() {
      for (r, c) in SHAPES.iter() {
        let mut formsets: Vec<Vec<&str>> = FORMS1.iter().map(|f| vec![*f]).collect();
        for a in FORMS2.iter() { for b in FORMS2.iter() { formsets.push(vec![*a, *b]); } }
        for forms in formsets.iter() {
          // a 2-D mask needs an element count with a factorisation into two extents >= 2
          if forms.len() == 1 && forms[0] == "mm" && !(2..r * c).any(|d| (r * c) % d == 0 && (r * c) / d >= 2) { continue; }
          for d in 0..draws {
            let fname = forms.join(",");
            let base = format!("kind={};shape={}x{};form={}", k, r, c, fname);
            let mut rng = Rng::keyed(seed, &format!("{};d={}", base, d));
            let ik = *rng.pick(&["f64", "f64", "u8", "u64", "i64"]);
            let x = index_matrix(k, *r, *c, rng.below(5) as i64);
            let extents: Vec<usize> = if forms.len() == 1 { vec![r * c] } else { vec![*r, *c] };
            let sels: Vec<Sel> = forms.iter().zip(extents.iter()).map(|(f, e)| gen_sel(f, *e, &mut rng)).collect();
            let exp = ref_select(&x, &sels).expect("in-range selector must resolve");
            let src = format!("x{}", index_text(&sels, ik));
            out.push(Case { id: format!("{};var=in;d={}", base, d), cell: format!("{};var=in", base), input: json!({"kind": k, "x": x, "src": src, "probe": J::Null, "expect": exp, "documented": documented(&forms[..]) && *r >= 2 && *c >= 2 && sels.iter().all(|s| match s { Sel::V(v) => v.len() >= 2, Sel::M(m) | Sel::M2(_, m) => m.iter().filter(|b| **b).count() >= 2, Sel::R(a, b, _) => b > a, _ => true }), "ik": ik}) });
            // the indexed matrix reached through another SOURCE form (mutable variable, copy, record field,
            // tuple element, a definition written as a literal, a chained full subscript): same selection, same result
            {
              let nf = SRC_FORMS3.len();
              let picks: Vec<usize> = if tier == Tier::Quick { if d == 0 { vec![(rng.below(nf as u64) as usize + seed as usize) % nf] } else { vec![] } } else { (0..nf).filter(|f| (f + d) % 3 == 0 || d == 0).collect() };
              for f in picks {
                let cell = format!("{};var=in;src={}", base, SRC_FORMS3[f]);
                out.push(Case { id: format!("{};d={}", cell, d), cell, input: json!({"kind": k, "x": x, "src": src, "probe": J::Null, "expect": exp, "documented": false, "ik": ik, "srcform": SRC_FORMS3[f]}) });
                // and one out-of-range variant through the same form
                if let Some((label, bad)) = oor_variants(&sels[0], extents[0]).into_iter().next() {
                  let mut s2 = sels.clone(); s2[0] = bad;
                  if ref_select(&x, &s2).is_none() {
                    let cell = format!("{};var=oor1-{};src={}", base, label, SRC_FORMS3[f]);
                    out.push(Case { id: format!("{};d={}", cell, d), cell, input: json!({"kind": k, "x": x, "src": format!("x{}", index_text(&s2, ik)), "probe": src, "expect": J::Null, "documented": false, "ik": ik, "srcform": SRC_FORMS3[f]}) });
                  }
                }
              }
            }
            if d == 0 || tier == Tier::Thorough {
              for (pos, e) in extents.iter().enumerate() {
                for (label, bad) in oor_variants(&sels[pos], *e) {
                  let mut s2 = sels.clone(); s2[pos] = bad;
                  if ref_select(&x, &s2).is_some() { continue; }
                  let cell = format!("{};var=oor{}-{}", base, pos + 1, label);
                  out.push(Case { id: format!("{};d={}", cell, d), cell, input: json!({"kind": k, "x": x, "src": format!("x{}", index_text(&s2, ik)), "probe": src, "expect": J::Null, "documented": false, "ik": ik}) });
                }
              }
            }
          }
        }
      }
    }
    // subscripts that are LOCAL names: bound by a comprehension generator, a match arm's pattern or a function arm's
    // pattern, with globals of the same names holding other valid positions
    {
      let kinds: Vec<&str> = if tier == Tier::Quick { (0..5).map(|i| ALL_KINDS[(i * 3 + seed as usize) % ALL_KINDS.len()]).collect() } else { ALL_KINDS.to_vec() };
      for k in kinds {
        for (r, c) in [(2usize, 3usize), (3, 2), (4, 4)] {
          for ctx in ["compr", "match", "fn"] {
            for pat in ["ij", "Lj", "iL", "aj", "ia", "lin", "rj", "ir"] {
              let mut rng = Rng::keyed(seed, &format!("c03ctx;{};{}x{};{};{}", k, r, c, ctx, pat));
              let i0 = 1 + rng.below(r as u64) as usize; let j0 = 1 + rng.below(c as u64) as usize;
              let cell = format!("ctx;kind={};shape={}x{};ctx={};pat={}", k, r, c, ctx, pat);
              out.push(Case { id: cell.clone(), cell, input: json!({"stratum": "ctx", "kind": k, "x": index_matrix(k, r, c, rng.below(5) as i64), "ctx": ctx, "pat": pat, "i0": i0, "j0": j0}) });
            }
          }
        }
      }
    }
    out
  }

  fn run(&self, case: &Case, _flavour: &str) -> Outcome {
    if case.input["stratum"] == "ctx" { return run_ctx(case); }
    let k = case.input["kind"].as_str().unwrap().to_string();
    let x: CVal = serde_json::from_value(case.input["x"].clone()).unwrap();
    let mut src = case.input["src"].as_str().unwrap().to_string();
    let mut s = Sess::new();
    s.bind("x", &x, false);
    let other = CVal::S("f64".into(), Sc::f64(42.0));
    s.bind("w", &other, false);
    // index forms: in half of the cases (hash of the case id) one or both index expressions are first bound to variables
    // (x[i1,i2] instead of x[2,[1 3]]): kernels are selected differently for variable and literal indices
    let h = case.id.bytes().fold(0xcbf29ce484222325u64, |h, b| (h ^ b as u64).wrapping_mul(0x100000001b3));
    let mut hoisted = false;
    let mut probe_src = case.input["probe"].as_str().map(|p| p.to_string());
    let hoist = |s: &mut Sess, text: &str, prefix: &str| -> Option<String> {
      let inner = text.strip_prefix("x[")?.strip_suffix(']')?;
      let mut parts: Vec<String> = Vec::new(); let mut depth = 0; let mut cur = String::new();
      for ch in inner.chars() { match ch { '[' => { depth += 1; cur.push(ch); } ']' => { depth -= 1; cur.push(ch); } ',' if depth == 0 => { parts.push(cur.clone()); cur.clear(); } _ => cur.push(ch) } }
      parts.push(cur);
      let mut any = false;
      for (i, p) in parts.iter_mut().enumerate() {
        if p.trim() == ":" || (h >> (9 + i)) & 1 == 0 { continue; }
        let name = format!("{}{}", prefix, i + 1);
        if !s.eval(&format!("{} := {}", name, p)).is_ok() { return None; }
        *p = name; any = true;
      }
      if any { Some(format!("x[{}]", parts.join(","))) } else { None }
    };
    if (h >> 8) & 1 == 1 {
      let new_probe = match &probe_src { Some(p) => hoist(&mut s, p, "p"), None => None };
      if let Some(ns) = hoist(&mut s, &src, "i") { src = ns; hoisted = true; if let Some(np) = new_probe { probe_src = Some(np); } }
    }
    let mut sform = String::new();
    let mut sform_text = String::new();
    if let Some(f) = case.input["srcform"].as_str() {
      let Some(t) = source_form3(&mut s, &x, f) else { return Outcome::trivial().tag(format!("srcform-no-spelling:{}", f)) };
      match s.eval(&t) { Ev::Ok(v) if v == x => {}, other => return Outcome::trivial().tag(format!("srcform-unavailable:{}", f)) }
      let sub = |txt: &str| -> String { format!("{}{}", t, &txt[1..]) };
      src = sub(&src);
      if let Some(p) = &probe_src { probe_src = Some(sub(p)); }
      sform = f.to_string(); sform_text = t.clone();
    }
    let before = s.snapshot();
    if let Some(probe) = probe_src.as_deref() {
      // out-of-range variant: the in-range form must be supported first
      let p = s.eval(probe);
      if !p.is_ok() { return Outcome::trivial().tag(format!("unsupported:{}", case.cell.split("form=").nth(1).unwrap_or("").split(';').next().unwrap_or(""))); }
      let res = s.eval(&src);
      let after = s.snapshot();
      if after != before { return Outcome::violated("source-modified", format!("symbols changed by read {}: {} -> {}", src, show_snapshot(&before), show_snapshot(&after))); }
      return match res {
        Ev::Ok(v) => Outcome::violated(if v.is_matrix() && v.elems().is_empty() { "value-instead-of-error:empty-result" } else { "value-instead-of-error" }, format!("{} on {} returned {}", src, x.show(), v.show())),
        Ev::Err(kind, _) => Outcome::held().tag(format!("err:{}", kind)),
        Ev::ParseErr(m) => Outcome::inconclusive("harness-parse", format!("{} {}", src, m)),
        Ev::Panic(m) => Outcome::violated("panic-escaped", m),
      };
    }
    let exp: Expect = serde_json::from_value(case.input["expect"].clone()).unwrap();
    let res = s.eval(&src);
    let arm = s.last_arm();
    let after = s.snapshot();
    if after != before { return Outcome::violated("source-modified", format!("symbols changed by read {}: {} -> {}", src, show_snapshot(&before), show_snapshot(&after))); }
    if let Ev::Err(kind, msg) = &res {
      if !sform.is_empty() {
        // the same selection on the plain variable works and the form takes subscripts at all: the form must work too
        let plain = s.eval(case.input["src"].as_str().unwrap());
        let subscriptable = s.eval(&format!("{}[1]", sform_text)).is_ok();
        if plain.is_ok() && subscriptable { return Outcome::violated("source-form-rejected", format!("{} on {}: {} {} (the same subscript on the plain variable works)", src, x.show(), kind, msg.chars().take(100).collect::<String>())); }
        return Outcome::trivial().tag(format!("unsupported-through:{}", sform));
      }
      if case.input["documented"].as_bool().unwrap_or(false) && !hoisted { return Outcome::violated("documented-form-rejected", format!("{} on {}: {} {}", src, x.show(), kind, msg.chars().take(100).collect::<String>())); }
      return Outcome::trivial().tag(format!("unsupported:{}", case.cell.split("form=").nth(1).unwrap_or("").split(';').next().unwrap_or("")));
    }
    match judge_read(&res, &exp, &k) {
      Ok(()) => Outcome::held().tag(format!("arm:{}", arm.split_whitespace().next().unwrap_or(""))).tag(if hoisted { "ixform:variables" } else { "ixform:literal" }).tag(format!("srcform:{}", if sform.is_empty() { "var" } else { &sform })),
      Err((class, detail)) => if class == "harness-parse" { Outcome::inconclusive("harness-parse", format!("{} {}", src, detail)) } else { Outcome::violated(&class, format!("{} on {}: {}", src, x.show(), detail)) },
    }
  }

  fn extra_evidence(&self, tags: &BTreeMap<String, usize>) -> J {
    json!({"distinct_arms_observed": tags.keys().filter(|k| k.starts_with("arm:")).count(), "unsupported_forms": tags.keys().filter(|k| k.starts_with("unsupported:")).collect::<Vec<_>>()})
  }
}
