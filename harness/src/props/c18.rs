//! C18 Table joins are the relational-algebra joins on the shared columns.

use crate::canon::*;
use crate::fw::*;
use crate::sess::*;
use serde::{Deserialize, Serialize};
use serde_json::{json, Value as J};
use std::collections::BTreeMap;

pub struct C18;

#[derive(Clone, Debug, Serialize, Deserialize)]
struct Tab { cols: Vec<(String, String)>, rows: Vec<Vec<CVal>> }

fn cell(kind: &str, v: u64) -> CVal {
  match kind { "f64" => sc_f64(v as f64 + 0.5), "f32" => sc_f32(v as f32 + 0.5), "string" => sc_s(&format!("s{}", v)), "bool" => sc_b(v % 2 == 1),
    k if k.starts_with('u') => sc_u(k, v as u128), k if k.starts_with('i') => sc_i(k, v as i128), _ => sc_b(v % 2 == 1) }
}
fn lit_cell(c: &CVal) -> String { lit(c).unwrap_or_else(|| "_".into()) }

impl Tab {
  fn literal(&self) -> String {
    let head = self.cols.iter().map(|(n, k)| format!("{}<{}>", n, k)).collect::<Vec<_>>().join(" ");
    let rows = self.rows.iter().map(|r| r.iter().map(lit_cell).collect::<Vec<_>>().join(" ")).collect::<Vec<_>>().join(" | ");
    format!("|{}| {} |", head, rows)
  }
}

type Row = BTreeMap<String, CVal>;

fn rows_of(t: &Tab) -> Vec<Row> { t.rows.iter().map(|r| t.cols.iter().zip(r.iter()).map(|((n, _), c)| (n.clone(), c.clone())).collect()).collect() }

/// reference join: (rows over the union of columns, expected kinds)
fn ref_join(op: &str, a: &Tab, b: &Tab) -> (Vec<Row>, BTreeMap<String, String>) {
  let shared: Vec<String> = a.cols.iter().filter(|(n, _)| b.cols.iter().any(|(m, _)| m == n)).map(|(n, _)| n.clone()).collect();
  let (ra, rb) = (rows_of(a), rows_of(b));
  let matches = |l: &Row, r: &Row| shared.iter().all(|c| l[c] == r[c]);
  let merge = |l: Option<&Row>, r: Option<&Row>| -> Row {
    let mut o = Row::new();
    for (n, _) in a.cols.iter().chain(b.cols.iter()) { let v = l.and_then(|x| x.get(n)).or(r.and_then(|x| x.get(n))).cloned().unwrap_or(CVal::Empty); o.entry(n.clone()).or_insert(v); }
    o
  };
  let mut out = Vec::new();
  let mut kinds: BTreeMap<String, String> = BTreeMap::new();
  let left_only: Vec<&(String, String)> = a.cols.iter().filter(|(n, _)| !shared.contains(n)).collect();
  let right_only: Vec<&(String, String)> = b.cols.iter().filter(|(n, _)| !shared.contains(n)).collect();
  let opt = |k: &str| if k.ends_with('?') { k.to_string() } else { format!("{}?", k) };
  match op {
    "inner" | "left" | "right" | "full" => {
      for (n, k) in a.cols.iter().chain(b.cols.iter()) { kinds.entry(n.clone()).or_insert(k.clone()); }
      if op == "left" || op == "full" { for (n, k) in right_only.iter() { kinds.insert(n.clone(), opt(k)); } }
      if op == "right" || op == "full" { for (n, k) in left_only.iter() { kinds.insert(n.clone(), opt(k)); } }
      for l in ra.iter() { let mut any = false; for r in rb.iter() { if matches(l, r) { out.push(merge(Some(l), Some(r))); any = true; } } if !any && (op == "left" || op == "full") { out.push(merge(Some(l), None)); } }
      if op == "right" || op == "full" { for r in rb.iter() { if !ra.iter().any(|l| matches(l, r)) { out.push(merge(None, Some(r))); } } }
    }
    "semi" | "anti" => {
      for (n, k) in a.cols.iter() { kinds.insert(n.clone(), k.clone()); }
      for l in ra.iter() { let m = rb.iter().any(|r| matches(l, r)); if m == (op == "semi") { out.push(l.clone()); } }
    }
    _ => {}
  }
  (out, kinds)
}

const OPS: [(&str, &str, &str); 6] = [("inner", "⋈", "table/join"), ("left", "⟕", "table/left-outer-join"), ("right", "⟖", "table/right-outer-join"), ("full", "⟗", "table/full-outer-join"), ("semi", "⋉", "table/left-semi-join"), ("anti", "▷", "table/left-anti-join")];

fn gen_table(rng: &mut Rng, names: &[&str], kinds: &BTreeMap<String, String>, max_rows: usize) -> Tab {
  let cols: Vec<(String, String)> = names.iter().map(|n| (n.to_string(), kinds[*n].clone())).collect();
  let nrows = 1 + rng.below(max_rows as u64) as usize;
  let rows = (0..nrows).map(|_| cols.iter().map(|(n, k)| cell(k, if n.starts_with('k') { rng.below(3) } else { rng.below(50) })).collect()).collect();
  Tab { cols, rows }
}

fn table_rows(v: &CVal) -> Option<(Vec<Row>, BTreeMap<String, String>)> {
  if let CVal::Table(n, cols) = v {
    let mut rows = vec![Row::new(); *n];
    let mut kinds = BTreeMap::new();
    for (name, kind, cells) in cols { kinds.insert(name.clone(), kind.clone()); if cells.len() != *n { return None; } for (i, c) in cells.iter().enumerate() { rows[i].insert(name.clone(), c.clone()); } }
    Some((rows, kinds))
  } else { None }
}

impl Prop for C18 {
  fn id(&self) -> &'static str { "C18" }
  fn rule(&self) -> String { "pairs of generated tables with 1-3 columns each (0, 1 or 2 shared names), 1-5 rows, key columns over a 3-value domain (duplicates and many-to-many matches are the norm), column kinds among u8 / u64 / f64 / string / bool; the six join operators in symbol and word form; row selection by index, index vector with repeats and logical mask. The result table is compared with the relational-algebra result as a multiset of rows over the union of columns, with column kinds (optional exactly for columns that can be missing) and the empty value exactly in unmatched rows. Non-trivial = the reference result has at least one row".into() }
  fn assumptions(&self) -> Vec<String> { vec!["rows are compared as a multiset (row order of a join is not specified); row selection is compared in order".into(), "an empty result may be returned as a 0-row table or rejected".into()] }
  fn floor(&self, tier: Tier) -> usize { if tier == Tier::Quick { 1200 } else { 12000 } }

  fn gen(&self, tier: Tier, seed: u64) -> Vec<Case> {
    let mut out = Vec::new();
    let n = if tier == Tier::Quick { 200 } else { 2500 };
    // (every scalar kind a table column can be declared with: the join and selection kernels copy columns with one arm per kind)
    let all_kinds = ["u8", "u64", "f64", "string", "bool", "u16", "u32", "u128", "i8", "i16", "i32", "i64", "i128", "f32"];
    for i in 0..n {
      let mut rng = Rng::keyed(seed, &format!("c18{}", i));
      let nshared = rng.below(3) as usize;
      let mut kinds: BTreeMap<String, String> = BTreeMap::new();
      for name in ["k1", "k2", "a1", "a2", "b1", "b2"] { kinds.insert(name.to_string(), rng.pick(&all_kinds).to_string()); }
      let shared: Vec<&str> = ["k1", "k2"][..nshared].to_vec();
      let mut an = shared.clone(); an.push("a1"); if rng.chance(1, 2) && an.len() < 3 { an.push("a2"); }
      let mut bn = shared.clone(); bn.push("b1"); if rng.chance(1, 2) && bn.len() < 3 { bn.push("b2"); }
      if rng.chance(1, 2) { bn.reverse(); }
      let a = gen_table(&mut rng, &an, &kinds, 5); let b = gen_table(&mut rng, &bn, &kinds, 5);
      for (op, sym, word) in OPS.iter() {
        for form in ["symbol", "word"] {
          let src = if form == "symbol" { format!("A {} B", sym) } else { format!("{}(A, B)", word) };
          out.push(Case { id: format!("join;op={};form={};shared={};n={}", op, form, nshared, i), cell: format!("join;op={};form={};shared={}", op, form, nshared), input: json!({"mode": "join", "a": a, "b": b, "op": op, "src": src}) });
        }
      }
      // chained joins over one shared key: the second join sees columns that are already optional and hold the empty value
      if nshared >= 1 && i % 2 == 0 {
        let mut kinds3 = kinds.clone(); kinds3.insert("c1".into(), rng.pick(&all_kinds).to_string());
        let cn: Vec<&str> = shared.iter().cloned().chain(std::iter::once("c1")).collect();
        let c = gen_table(&mut rng, &cn, &kinds3, 4);
        let outer = ["left", "right", "full", "inner"];
        let (o1, o2) = (outer[i / 2 % 4], outer[(i / 8 + i / 2) % 4]);
        // an unparenthesised chain of two table operators (all six kinds) groups from the left
        { let all6 = ["inner", "left", "right", "full", "semi", "anti"]; let (c1, c2) = (all6[(i / 2) % 6], all6[(i / 2 + i / 12 + 1) % 6]);
          out.push(Case { id: format!("join2;op1={};op2={};form=chain;n={}", c1, c2, i), cell: format!("join2;op1={};op2={};form=chain", c1, c2), input: json!({"mode": "join2", "a": a, "b": b, "c": c, "op1": c1, "op2": c2, "form": "chain"}) }); }
        for form in ["vars", "inline"] { out.push(Case { id: format!("join2;op1={};op2={};form={};n={}", o1, o2, form, i), cell: format!("join2;op1={};op2={};form={}", o1, o2, form), input: json!({"mode": "join2", "a": a, "b": b, "c": c, "op1": o1, "op2": o2, "form": form}) }); }
      }
      // row selection on A
      let nr = a.rows.len();
      let idx: Vec<usize> = (0..1 + rng.below(4)).map(|_| 1 + rng.below(nr as u64) as usize).collect();
      // one mask in six selects no row at all (the result is the empty table)
      let mask: Vec<bool> = if i % 6 == 5 { vec![false; nr] } else { (0..nr).map(|j| j == 0 || rng.chance(1, 2)).collect() };
      out.push(Case { id: format!("select;form=scalar;n={}", i), cell: "select;form=scalar".into(), input: json!({"mode": "select", "a": a, "form": "scalar", "idx": [idx[0]]}) });
      if idx.len() >= 2 { out.push(Case { id: format!("select;form=vector;n={}", i), cell: "select;form=vector".into(), input: json!({"mode": "select", "a": a, "form": "vector", "idx": idx}) }); }
      if nr >= 2 { out.push(Case { id: format!("select;form=mask;n={}", i), cell: "select;form=mask".into(), input: json!({"mode": "select", "a": a, "form": "mask", "mask": mask}) }); }
      // chained selections: the second subscript applies to a temporary table (index vector, then index vector of another
      // length; logical mask, then index vector)
      let first: Vec<usize> = (0..2 + rng.below(4)).map(|_| 1 + rng.below(nr as u64) as usize).collect();
      let second: Vec<usize> = (0..2 + rng.below(first.len() as u64)).map(|_| 1 + rng.below(first.len() as u64) as usize).collect();
      out.push(Case { id: format!("select;form=chain-vv;n={}", i), cell: "select;form=chain-vv".into(), input: json!({"mode": "select", "a": a, "form": "chain-vv", "idx": first, "idx2": second}) });
      // ... index vector, then a logical mask over the temporary's rows; logical mask, then a logical mask over the kept rows
      // (masks have at least two entries: the literal [true] is a scalar, not a mask)
      { let m2: Vec<bool> = (0..first.len()).map(|j| j == first.len() - 1 || (i + j) % 2 == 0).collect();
        out.push(Case { id: format!("select;form=chain-vm;n={}", i), cell: "select;form=chain-vm".into(), input: json!({"mode": "select", "a": a, "form": "chain-vm", "idx": first, "mask2": m2}) }); }
      { let keptn = mask.iter().filter(|b| **b).count();
        if nr >= 2 && keptn >= 2 { let m2: Vec<bool> = (0..keptn).map(|j| j == 0 || (i + j) % 3 == 0).collect();
          out.push(Case { id: format!("select;form=chain-mm;n={}", i), cell: "select;form=chain-mm".into(), input: json!({"mode": "select", "a": a, "form": "chain-mm", "mask": mask, "mask2": m2}) }); } }
      let kept = mask.iter().filter(|b| **b).count();
      let second_m: Vec<usize> = (0..2 + rng.below(3)).map(|_| 1 + rng.below(kept.max(1) as u64) as usize).collect();
      if nr >= 2 && kept >= 1 { out.push(Case { id: format!("select;form=chain-mv;n={}", i), cell: "select;form=chain-mv".into(), input: json!({"mode": "select", "a": a, "form": "chain-mv", "mask": mask, "idx2": second_m}) }); }
    }
    out
  }

  fn run(&self, case: &Case, _flavour: &str) -> Outcome {
    let a: Tab = serde_json::from_value(case.input["a"].clone()).unwrap();
    let mut s = Sess::new();
    let da = s.eval(&format!("A := {}", a.literal()));
    if !da.is_ok() { return Outcome::inconclusive("table-literal", format!("{} -> {}", a.literal(), da.show())); }
    match case.input["mode"].as_str().unwrap() {
      "join" => {
        let b: Tab = serde_json::from_value(case.input["b"].clone()).unwrap();
        let db = s.eval(&format!("B := {}", b.literal()));
        if !db.is_ok() { return Outcome::inconclusive("table-literal", format!("{} -> {}", b.literal(), db.show())); }
        let op = case.input["op"].as_str().unwrap(); let src = case.input["src"].as_str().unwrap();
        let (mut want, kinds) = ref_join(op, &a, &b);
        let res = s.eval(src);
        let ctx = || format!("A := {}\nB := {}\n{}", a.literal(), b.literal(), src);
        match &res {
          Ev::Panic(p) => Outcome::violated("panic-escaped", format!("{}\n{}", ctx(), p)),
          Ev::ParseErr(m) => Outcome::inconclusive("harness-parse", format!("{} {}", src, m)),
          Ev::Err(k, m) => if want.is_empty() { Outcome::trivial().tag("empty-result-rejected") } else { Outcome::violated("error-instead-of-value", format!("{}\nfailed: {} {}", ctx(), k, m.chars().take(120).collect::<String>())) },
          Ev::Ok(v) => {
            let Some((mut got, gkinds)) = table_rows(v) else { return Outcome::violated("not-a-table", format!("{}\n-> {}", ctx(), v.show())); };
            got.sort(); want.sort();
            if got != want {
              let class = if got.len() != want.len() { "row-count-differs" } else if got.iter().map(|r| r.keys().cloned().collect::<Vec<_>>()).next() != want.iter().map(|r| r.keys().cloned().collect::<Vec<_>>()).next() { "columns-differ" } else { "rows-differ" };
              return Outcome::violated(class, format!("{}\n-> {}\nexpected rows {:?}", ctx(), v.show(), want.iter().map(|r| r.values().map(|c| c.show()).collect::<Vec<_>>()).collect::<Vec<_>>()));
            }
            if !want.is_empty() { for (n, k) in kinds.iter() { if gkinds.get(n) != Some(k) { return Outcome::violated("column-kind-differs", format!("{}\ncolumn {} has kind {:?} expected {}", ctx(), n, gkinds.get(n), k)); } } }
            if want.is_empty() { Outcome::trivial() } else { Outcome::held() }
          }
        }
      }
      "join2" => {
        let b: Tab = serde_json::from_value(case.input["b"].clone()).unwrap();
        let c: Tab = serde_json::from_value(case.input["c"].clone()).unwrap();
        for (n, t) in [("B", &b), ("C", &c)] { let d = s.eval(&format!("{} := {}", n, t.literal())); if !d.is_ok() { return Outcome::inconclusive("table-literal", format!("{} -> {}", t.literal(), d.show())); } }
        let (op1, op2, form) = (case.input["op1"].as_str().unwrap(), case.input["op2"].as_str().unwrap(), case.input["form"].as_str().unwrap());
        let sym = |op: &str| OPS.iter().find(|(o, _, _)| *o == op).map(|x| x.1).unwrap_or("?");
        let (rows1, kinds1) = ref_join(op1, &a, &b);
        if rows1.is_empty() { return Outcome::trivial().tag("empty-intermediate"); }
        // the intermediate result as a table of the reference (columns of A, then the columns only B has)
        let mut cols1: Vec<(String, String)> = Vec::new();
        for (n, _) in a.cols.iter().chain(b.cols.iter()) { if !cols1.iter().any(|(m, _)| m == n) && kinds1.contains_key(n) { cols1.push((n.clone(), kinds1[n].clone())); } }
        let k = Tab { cols: cols1.clone(), rows: rows1.iter().map(|r| cols1.iter().map(|(n, _)| r[n].clone()).collect()).collect() };
        let (mut want, kinds) = ref_join(op2, &k, &c);
        let src = if form == "vars" { format!("K := A {} B\nJ := K {} C", sym(op1), sym(op2)) } else if form == "chain" { format!("J := A {} B {} C", sym(op1), sym(op2)) } else { format!("J := (A {} B) {} C", sym(op1), sym(op2)) };
        let res = s.eval(&src);
        let ctx = || format!("A := {}\nB := {}\nC := {}\n{}", a.literal(), b.literal(), c.literal(), src);
        match &res {
          Ev::Panic(p) => Outcome::violated("panic-escaped", format!("{}\n{}", ctx(), p)),
          Ev::ParseErr(m) => Outcome::inconclusive("harness-parse", format!("{} {}", src, m)),
          Ev::Err(kd, m) => if want.is_empty() { Outcome::trivial().tag("empty-result-rejected") } else { Outcome::violated("error-instead-of-value", format!("{}\nfailed: {} {}", ctx(), kd, m.chars().take(120).collect::<String>())) },
          Ev::Ok(v) => {
            let Some((mut got, gkinds)) = table_rows(v) else { return Outcome::violated("not-a-table", format!("{}\n-> {}", ctx(), v.show())); };
            got.sort(); want.sort();
            if got != want { return Outcome::violated(if got.len() != want.len() { "row-count-differs" } else { "rows-differ" }, format!("{}\n-> {}\nexpected rows {:?}", ctx(), v.show(), want.iter().map(|r| r.values().map(|c| c.show()).collect::<Vec<_>>()).collect::<Vec<_>>())); }
            if !want.is_empty() { for (n, kk) in kinds.iter() { if gkinds.get(n) != Some(kk) { return Outcome::violated("column-kind-differs", format!("{}\ncolumn {} has kind {:?} expected {}", ctx(), n, gkinds.get(n), kk)); } } }
            // every column of the result can be read
            if !want.is_empty() { for (n, _) in kinds.iter() { match s.eval(&format!("J.{}", n)) { Ev::Ok(_) => {}, other => return Outcome::violated("column-unreadable", format!("{}\nJ.{} -> {}", ctx(), n, other.show())) } } }
            if want.is_empty() { Outcome::trivial() } else { Outcome::held() }
          }
        }
      }
      "select" => {
        let rows = rows_of(&a);
        // the kind of the index literals and whether the index is written inline or held in a variable rotate with the case
        let h = case.id.bytes().fold(0xcbf29ce484222325u64, |h, b| (h ^ b as u64).wrapping_mul(0x100000001b3));
        let ik = ["", "", "u8", "u16", "u32", "u64", "u128"][(h % 7) as usize];
        let via_var = (h >> 8) % 3 == 0;
        let nn = |i: &usize| format!("{}{}", i, ik);
        let hoist = |s: &mut Sess, txt: String| -> String { if via_var && s.eval(&format!("ixv := {}", txt)).is_ok() { "ixv".to_string() } else { txt } };
        let (src, want): (String, Vec<Row>) = match case.input["form"].as_str().unwrap() {
          "scalar" => { let i = case.input["idx"][0].as_u64().unwrap() as usize; let t = hoist(&mut s, nn(&i)); (format!("A[{}]", t), vec![rows[i - 1].clone()]) }
          "vector" => { let idx: Vec<usize> = serde_json::from_value(case.input["idx"].clone()).unwrap(); let t = hoist(&mut s, format!("[{}]", idx.iter().map(nn).collect::<Vec<_>>().join(" "))); (format!("A[{}]", t), idx.iter().map(|i| rows[i - 1].clone()).collect()) }
          "chain-vv" => { let idx: Vec<usize> = serde_json::from_value(case.input["idx"].clone()).unwrap(); let idx2: Vec<usize> = serde_json::from_value(case.input["idx2"].clone()).unwrap();
            let f = |v: &Vec<usize>| v.iter().map(|i| i.to_string()).collect::<Vec<_>>().join(" ");
            (format!("A[[{}]][[{}]]", f(&idx), f(&idx2)), idx2.iter().map(|j| rows[idx[j - 1] - 1].clone()).collect()) }
          "chain-vm" => { let idx: Vec<usize> = serde_json::from_value(case.input["idx"].clone()).unwrap(); let m2: Vec<bool> = serde_json::from_value(case.input["mask2"].clone()).unwrap();
            (format!("A[[{}]][[{}]]", idx.iter().map(|i| i.to_string()).collect::<Vec<_>>().join(" "), m2.iter().map(|b| b.to_string()).collect::<Vec<_>>().join(" ")), idx.iter().zip(m2.iter()).filter(|(_, b)| **b).map(|(i, _)| rows[i - 1].clone()).collect()) }
          "chain-mm" => { let m: Vec<bool> = serde_json::from_value(case.input["mask"].clone()).unwrap(); let m2: Vec<bool> = serde_json::from_value(case.input["mask2"].clone()).unwrap();
            let kept: Vec<Row> = rows.iter().zip(m.iter()).filter(|(_, b)| **b).map(|(r, _)| r.clone()).collect();
            (format!("A[[{}]][[{}]]", m.iter().map(|b| b.to_string()).collect::<Vec<_>>().join(" "), m2.iter().map(|b| b.to_string()).collect::<Vec<_>>().join(" ")), kept.iter().zip(m2.iter()).filter(|(_, b)| **b).map(|(r, _)| r.clone()).collect()) }
          "chain-mv" => { let m: Vec<bool> = serde_json::from_value(case.input["mask"].clone()).unwrap(); let idx2: Vec<usize> = serde_json::from_value(case.input["idx2"].clone()).unwrap();
            let kept: Vec<Row> = rows.iter().zip(m.iter()).filter(|(_, b)| **b).map(|(r, _)| r.clone()).collect();
            (format!("A[[{}]][[{}]]", m.iter().map(|b| b.to_string()).collect::<Vec<_>>().join(" "), idx2.iter().map(|i| i.to_string()).collect::<Vec<_>>().join(" ")), idx2.iter().map(|j| kept[j - 1].clone()).collect()) }
          _ => { let m: Vec<bool> = serde_json::from_value(case.input["mask"].clone()).unwrap(); let t = hoist(&mut s, format!("[{}]", m.iter().map(|b| b.to_string()).collect::<Vec<_>>().join(" "))); (format!("A[{}]", t), rows.iter().zip(m.iter()).filter(|(_, b)| **b).map(|(r, _)| r.clone()).collect()) }
        };
        let res = s.eval(&src);
        let ctx = || format!("A := {}\n{}", a.literal(), src);
        match &res {
          Ev::Ok(CVal::Record(f)) => { let got: Row = f.iter().map(|(n, _, v)| (n.clone(), v.clone())).collect(); if want.len() == 1 && got == want[0] { Outcome::held() } else { Outcome::violated("selection-differs", format!("{}\n-> {}", ctx(), res.show())) } }
          Ev::Ok(v) => match table_rows(v) { Some((got, _)) => if got == want { Outcome::held() } else { Outcome::violated("selection-differs", format!("{}\n-> {} expected rows {:?}", ctx(), v.show(), want.iter().map(|r| r.values().map(|c| c.show()).collect::<Vec<_>>()).collect::<Vec<_>>())) }, None => Outcome::violated("not-a-table", format!("{}\n-> {}", ctx(), v.show())) },
          Ev::Panic(p) => Outcome::violated("panic-escaped", format!("{}\n{}", ctx(), p)),
          other => Outcome::violated("error-instead-of-value", format!("{}\n-> {}", ctx(), other.show())),
        }
      }
      _ => Outcome::inconclusive("bad-mode", String::new()),
    }
  }
}
