//! C08 Formatting a program does not change what it means.

use crate::canon::*;
use crate::corpus;
use crate::fw::*;
use crate::genprog::*;
use crate::sess::*;
use mech_syntax::formatter::Formatter;
use mech_syntax::parser;
use serde_json::{json, Value as J};

pub struct C08;

/// erase positions and insignificant whitespace from a serialised syntax tree
pub fn normalise(v: &J) -> J {
  match v {
    J::Object(m) => {
      // a token: {kind, chars, src_range}
      if m.contains_key("kind") && m.contains_key("chars") && m.contains_key("src_range") {
        let kind = m["kind"].as_str().unwrap_or("").to_string();
        let chars: String = m["chars"].as_array().map(|a| a.iter().filter_map(|c| c.as_str()).collect()).unwrap_or_default();
        if matches!(kind.as_str(), "Space" | "Tab" | "Newline" | "CarriageReturn" | "Whitespace") { return J::Null; }
        return json!({"t": kind, "c": chars.trim().to_string()});
      }
      let mut o = serde_json::Map::new();
      for (k, val) in m.iter() { if k == "src_range" { continue; } o.insert(k.clone(), normalise(val)); }
      J::Object(o)
    }
    J::Array(a) => J::Array(a.iter().map(normalise).filter(|x| !x.is_null()).collect()),
    o => o.clone(),
  }
}

fn first_diff(a: &J, b: &J, path: &str) -> Option<String> {
  match (a, b) {
    (J::Object(x), J::Object(y)) => { for (k, v) in x.iter() { match y.get(k) { Some(w) => if let Some(d) = first_diff(v, w, &format!("{}.{}", path, k)) { return Some(d); }, None => return Some(format!("{}.{} missing after formatting", path, k)) } } for k in y.keys() { if !x.contains_key(k) { return Some(format!("{}.{} appeared after formatting", path, k)); } } None }
    (J::Array(x), J::Array(y)) => { if x.len() != y.len() { return Some(format!("{}: {} items before, {} after", path, x.len(), y.len())); } for (i, (v, w)) in x.iter().zip(y.iter()).enumerate() { if let Some(d) = first_diff(v, w, &format!("{}[{}]", path, i)) { return Some(d); } } None }
    (x, y) => if x == y { None } else { Some(format!("{}: {} vs {}", path, x.to_string().chars().take(80).collect::<String>(), y.to_string().chars().take(80).collect::<String>())) },
  }
}

/// value-free signature of a difference: the last named components of its path (indices removed) and the kind of difference
fn path_signature(d: &str) -> String {
  let (path, rest) = d.split_once(": ").unwrap_or((d, ""));
  let (path, how) = if let Some(p) = path.strip_suffix(" missing after formatting") { (p, "missing") } else if let Some(p) = path.strip_suffix(" appeared after formatting") { (p, "appeared") } else if rest.contains("items before") { (path, "count") } else { (path, "value") };
  let comps: Vec<String> = path.split('.').filter(|c| !c.is_empty()).map(|c| c.split('[').next().unwrap_or("").to_string()).filter(|c| !c.is_empty() && c != "body" && c != "sections" && c != "elements" && c != "MechCode").collect();
  let tail: Vec<String> = comps.iter().rev().take(3).rev().cloned().collect();
  format!("{}:{}", tail.join("."), how)
}

/// the construct most likely responsible for an unparsable formatting: first hit in a fixed priority list of node kinds
fn culprit(kinds: &std::collections::BTreeSet<String>) -> String {
  for k in ["Mika", "FsmSpecification", "FsmImplementation", "Table", "AnnotatedTable", "Scientific", "TupleStruct", "KindDefine", "EnumDefine", "FunctionDefine", "Match", "Comment", "Swizzle", "Map", "Record", "Set", "Matrix"] { if kinds.contains(k) { return k.to_string(); } }
  "other".to_string()
}

/// top-level node kinds present in the tree (coverage tags)
fn node_kinds(v: &J, out: &mut std::collections::BTreeSet<String>, depth: usize) {
  if depth > 40 { return; }
  match v { J::Object(m) => { for (k, val) in m.iter() { if k.chars().next().map(|c| c.is_uppercase()).unwrap_or(false) { out.insert(k.clone()); } node_kinds(val, out, depth + 1); } } J::Array(a) => for x in a { node_kinds(x, out, depth + 1) }, _ => {} }
}

impl Prop for C08 {
  fn id(&self) -> &'static str { "C08" }
  fn rule(&self) -> String { "four strata: (1) the static corpus of 632 programs harvested from the repository's tests (one or more per grammar construct: every literal form, matrices / tables / records / maps / sets / tuples, every operator, ranges, subscripts, calls, defines with annotations, enums, functions, matches, state machines, comprehensions, comments), (2) generated composites of 1-12 typed statements, (3) every .mec document in the repository that parses (<= 24 KiB), (4) systematic surface forms: chains of 1-2 (thorough: 3) subscripts from 9 subscript forms as read, assignment target, op-assignment target and formula operand; 46 binary operator spellings in 5 contexts; ordered operator pairs unparenthesised and with both parenthesisations; 18 unary forms (syntax only). For each: format(parse(s)) must parse, the second tree must equal the first after erasing source ranges and whitespace tokens, formatting the formatted text must be a fixed point, and for executable programs both trees must interpret to the same canonical result and symbols. Non-trivial = the source parsed and the formatter returned text".into() }
  fn assumptions(&self) -> Vec<String> { vec!["tree comparison: derived Serialize of the syntax tree with every src_range removed and whitespace-only tokens dropped; token text is compared after trimming".into(), "the semantic twin (interpret both trees) is only required when the original interprets successfully".into()] }
  fn floor(&self, tier: Tier) -> usize { if tier == Tier::Quick { 500 } else { 3000 } }

  fn gen(&self, tier: Tier, seed: u64) -> Vec<Case> {
    let mut out = Vec::new();
    for (name, src) in corpus::test_programs() { let fam = name.split('_').take(3).collect::<Vec<_>>().join("_"); out.push(Case { id: format!("corpus;name={}", name), cell: format!("corpus;family={}", fam), input: json!({"src": src}) }); }
    let n = if tier == Tier::Quick { 400 } else { 6000 };
    for i in 0..n {
      let mut rng = Rng::keyed(seed, &format!("c08comp{}", i));
      let len = 1 + rng.below(12) as usize;
      let rowonly = rng.chance(3, 4);
      let p = random_program_modes(&mut rng, len, true, true, false, rowonly);
      // alternative surface spellings
      let mut src = p.text();
      if rng.chance(1, 3) { src = src.replace('\n', "; "); }
      out.push(Case { id: format!("composite;n={}", i), cell: format!("composite;constructs={}", p.constructs()), input: json!({"src": src}) });
    }
    for (path, text) in corpus::mec_files(24 * 1024) { out.push(Case { id: format!("file;path={}", path), cell: format!("file;path={}", path), input: json!({"src": text, "file": true}) }); }
    // systematic surface forms (parse -> format -> parse only needs them to parse): subscript chains in the three positions a
    // chain can occur, every binary operator spelling, ordered operator pairs with both parenthesisations, unary operators
    let subs = [".b", ".c", "[2]", "[1,2]", "[:]", "[1..=2]", ".1", "{\"k\"}", "[:,1]"];
    let mut chains: Vec<String> = Vec::new();
    for a in subs.iter() { chains.push(a.to_string()); for b in subs.iter() { chains.push(format!("{}{}", a, b)); if tier == Tier::Thorough { for c in subs.iter() { chains.push(format!("{}{}{}", a, b, c)); } } } }
    for (i, ch) in chains.iter().enumerate() {
      let depth = ch.matches(|c| c == '.' || c == '[' || c == '{').count();
      for (fam, src) in [("subscript-read", format!("x := a{}", ch)), ("subscript-assign", format!("a{} = 5", ch)), ("subscript-opassign", format!("a{} += 1", ch)), ("subscript-in-formula", format!("x := a{} + b{}", ch, ch))] {
        out.push(Case { id: format!("forms;family={};depth={};n={}", fam, depth, i), cell: format!("forms;family={};depth={}", fam, depth), input: json!({"src": src, "syntax_only": true}) });
      }
    }
    let ops = ["+", "-", "*", "/", "^", "%", "**", "·", "⨯", "\\", "==", "!=", "<", "<=", ">", ">=", "⩵", "≠", "≤", "≥", "&&", "||", "^^", "⊻", "∧", "∨", "⊕", "∪", "∩", "∖", "⊆", "⊇", "⊊", "⊋", "⊂", "⊃", "∈", "∉", "⋈", "⟕", "⟖", "⟗", "⋉", "▷", "×", "÷"];
    for (i, o) in ops.iter().enumerate() {
      for (j, src) in [format!("x := a {} b", o), format!("x := a{}b", o), format!("x := (a {} b)", o), format!("x := [1 2 3] {} c", o), format!("f(a {} b)", o)].iter().enumerate() {
        out.push(Case { id: format!("forms;family=binop;n={}.{}", i, j), cell: "forms;family=binop".into(), input: json!({"src": src, "syntax_only": true}) });
      }
    }
    for (i, o1) in ops.iter().enumerate() { for (j, o2) in ops.iter().enumerate() {
      if tier == Tier::Quick && (i * 7 + j * 3 + (seed as usize)) % 4 != 0 { continue; }
      for (k, src) in [format!("x := a {} b {} c", o1, o2), format!("x := (a {} b) {} c", o1, o2), format!("x := a {} (b {} c)", o1, o2)].iter().enumerate() {
        out.push(Case { id: format!("forms;family=binop-pair;n={}.{}.{}", i, j, k), cell: format!("forms;family=binop-pair;form={}", k), input: json!({"src": src, "syntax_only": true}) });
      }
    } }
    // kind annotations (every kind constructor, nested) and function definitions (one / several inputs and outputs)
    let kinds = ["u8", "f64", "string", "bool", "u8?", "[u8]", "[f64]:2,3", "[u8]:3", "{u8}", "{string}", "{u8:string}", "{string:u8}", "{string:[u8]}", "{u8:{string}}", "(u8,string)", "(f64,f64,bool)", "{u8:string}?", "[{u8}]", "{(u8,string)}", "{x<f64>,y<u8>}", "[u8]:1,2?", "point", ":color"];
    for (i, k) in kinds.iter().enumerate() {
      for (j, src) in [format!("x<{}> := y", k), format!("~x<{}> := y", k), format!("<t{}> := <{}>", i, k), format!("f(a<{}>) = b<{}> :=\n    b := a.", k, k), format!("x := y<{}>", k), format!("f(a<{}>) => <{}>\n  | * => a.", k, k)].iter().enumerate() {
        out.push(Case { id: format!("forms;family=kind-annotation;n={}.{}", i, j), cell: "forms;family=kind-annotation".into(), input: json!({"src": src, "syntax_only": true}) });
      }
    }
    for (i, src) in [
      "foo(x<f64>) = z<f64> :=\n    z := x + 1.",
      "foo(x<f64>, y<u8>) = z<f64> :=\n    z := x + 1.",
      "foo(x<f64>) = (a<f64>, b<f64>) :=\n    a := x + 1\n    b := x * 2.",
      "foo(x<f64>, y<f64>) = (a<f64>, b<u8>, c<string>) :=\n    a := x + y\n    b := 2u8\n    c := \"s\".",
      "foo() = z<f64> :=\n    z := 1.",
      "foo(x<f64>) = z<f64> :=\n    w := x * 2\n    z := w + 1.",
      "f(x<u64>) => <u64>\n  | 0 => 1\n  | n => n * 2.",
      "f(x<u64>, y<u64>) => <u64>\n  | (0, y) => y\n  | (x, y) => x + y.",
      "f(x<u64>) => <u64>\n  | n, n > 3u64 => 1\n  | * => 0.",
      "r := x?\n  | 1 => 2\n  | * => 3.",
      "r := (a, b)?\n  | (1, y) => y\n  | * => 0.",
      "(p, q) := foo(1.0)", "(p, q, r) := t", "r := foo(1, 2)", "r := foo(a: 1, b: 2)", "r := m/n/foo(x)",
    ].iter().enumerate() {
      out.push(Case { id: format!("forms;family=function;n={}", i), cell: "forms;family=function".into(), input: json!({"src": src, "syntax_only": true}) });
    }
    // Mechdown prose: every inline element alone and nested inside every inline wrapper, in paragraph / list / quote / heading / table-cell frames
    let atoms: [(&str, &str); 12] = [("word", "word"), ("link", "[the manual](docs/manual.html)"), ("code", "`x + 1`"), ("eval", "{x + 1}"), ("footref", "[^1]"), ("strong", "**strong text**"), ("emph", "*emphasised*"), ("under", "_underlined_"), ("strike", "~struck~"), ("high", "!!marked!!"), ("img", "![alt text](pic.png)"), ("two-links", "[a](b.html) and [c](d.html)")];
    let wraps: [(&str, &str, &str); 6] = [("none", "", ""), ("emph", "*", "*"), ("strong", "**", "**"), ("under", "_", "_"), ("strike", "~", "~"), ("high", "!!", "!!")];
    let frames: [(&str, &str, &str); 6] = [("para", "Some ", " here.\n"), ("list", "- item ", " end\n- second\n"), ("quote", "> quoted ", " end\n"), ("heading", "Title\n=====\n\n## About ", "\n\nBody text.\n"), ("cell", "| a | b |\n|---|---|\n| ", " | d |\n"), ("para-start", "", " starts the paragraph.\n")];
    for (an, a) in atoms.iter() { for (wn, wl, wr) in wraps.iter() { for (fname, pre, post) in frames.iter() {
      if an == wn { continue; }
      let src = format!("{}{}{}{}{}", pre, wl, a, wr, post);
      out.push(Case { id: format!("forms;family=prose;atom={};wrap={};frame={}", an, wn, fname), cell: format!("forms;family=prose;atom={};wrap={};frame={}", an, wn, fname), input: json!({"src": src, "syntax_only": true}) });
    } } }
    // patterns (array patterns with one or several items around the spread, tuple / tagged patterns) in match and function arms
    let pats = ["[h …]", "[… l]", "[h … l]", "[a, b | rest]", "[… a, b]", "[p, q … a, b]", "[* … m z]", "[* … l]", "[a … b c]", "[a b … c d]", "[… a b c]", "[a, * … b]", "[x | tail]", "[x, y | tail]", "[]", "[x]", "(a, b)", "(a, (b, c))", "(1, y)", ":red", ":rect(w)", ":rect(w, h)", "*", "n", "1", "\"s\"", "(a, *)", "[* …]", "[… *]"];
    for (i, pt) in pats.iter().enumerate() {
      for (j, src) in [format!("r := x?\n  | {} => 1\n  | * => 2.", pt), format!("f(x<u64>) => <u64>\n  | {} => 1\n  | * => 2.", pt), format!("r := x?\n  | {}, y > 1 => 1\n  | * => 2.", pt)].iter().enumerate() {
        out.push(Case { id: format!("forms;family=pattern;n={}.{}", i, j), cell: "forms;family=pattern".into(), input: json!({"src": src, "syntax_only": true}) });
      }
    }
    // literal spellings: scientific literals with every sign and exponent form, based literals, rationals, complex, suffixes
    for (i, l) in ["1e3", "1e+3", "1e-3", "1.5e3", "1.5e+3", "1.5e-3", "1.5e3.0", "1.5e+3.0", "1.5e-3.0", "2.5E2", "2.5E-2", ".5", ".5e1", "0x1F", "0b101", "0o17", "0d19", "1/2", "-3/4", "1+2i", "3.5-1.5i", "4i", "7u8", "7<u8>", "1_000.5", "1.0", "100", "\"s\"", "true", ":a", "_"].iter().enumerate() {
      for (j, src) in [format!("x := {}", l), format!("x := [{} {}]", l, l), format!("x := {} + {}", l, l), format!("f({})", l)].iter().enumerate() {
        out.push(Case { id: format!("forms;family=literal;n={}.{}", i, j), cell: format!("forms;family=literal;lit={}", i), input: json!({"src": src, "syntax_only": true}) });
      }
    }
    for (i, src) in ["x := -a", "x := !a", "x := ¬a", "x := a'", "x := -a'", "x := -(a + b)", "x := !(a && b)", "x := (a + b)'", "x := -a ^ 2", "x := (-a) ^ 2", "x := -(a ^ 2)", "x := a ^ -b", "x := - a", "x := a'[1]", "x := -a[1]", "x := -f(a)", "x := !a.b", "x := a.b'"].iter().enumerate() {
      out.push(Case { id: format!("forms;family=unary;n={}", i), cell: "forms;family=unary".into(), input: json!({"src": src, "syntax_only": true}) });
    }
    out
  }

  fn run(&self, case: &Case, _flavour: &str) -> Outcome {
    let src = case.input["src"].as_str().unwrap();
    let is_file = case.input.get("file").is_some();
    let t1 = match guarded(|| parser::parse(src)) { Ok(Ok(t)) => t, Ok(Err(_)) => return Outcome::trivial().tag("source-does-not-parse"), Err(p) => return Outcome::trivial().tag("source-parse-panic") };
    let shown = |s: &str| s.chars().take(400).collect::<String>();
    let f1 = match guarded(|| Formatter::new().format(&t1)) { Ok(f) => f, Err(p) => return Outcome::violated("format-panic", format!("formatting `{}` panicked: {}", shown(src), p)) };
    let j1 = match serde_json::to_value(&t1) { Ok(j) => j, Err(e) => return Outcome::inconclusive("serialise", e.to_string()) };
    let mut tags = std::collections::BTreeSet::new(); node_kinds(&j1, &mut tags, 0);
    let t2 = match guarded(|| parser::parse(&f1)) { Ok(Ok(t)) => t, Ok(Err(e)) => return Outcome::violated(&format!("reparse-fails:{}", culprit(&tags)), format!("`{}` formats to `{}` which does not parse ({}); node kinds {:?}", shown(src), shown(&f1), e.kind_name(), tags)), Err(p) => return Outcome::violated("reparse-panic", format!("`{}` formats to `{}`: {}", shown(src), shown(&f1), p)) };
    let j2 = serde_json::to_value(&t2).unwrap_or(J::Null);
    let (n1, n2) = (normalise(&j1), normalise(&j2));
    if n1 != n2 { let d = first_diff(&n1, &n2, "").unwrap_or_default(); return Outcome::violated(&format!("tree-differs:{}", path_signature(&d)), format!("`{}` formats to `{}`; first difference at {}", shown(src), shown(&f1), d.chars().take(300).collect::<String>())); }
    let f2 = match guarded(|| Formatter::new().format(&t2)) { Ok(f) => f, Err(p) => return Outcome::violated("format-panic", format!("formatting the formatted text `{}` panicked: {}", shown(&f1), p)) };
    if f2 != f1 { return Outcome::violated("not-idempotent", format!("`{}` -> `{}` -> `{}`", shown(src), shown(&f1), shown(&f2))); }
    // semantic twin
    if !is_file && case.input.get("syntax_only").is_none() {
      let mut a = Sess::new(); let ra = a.eval_tree(&t1);
      if let Ev::Ok(va) = &ra {
        let mut b = Sess::new(); let rb = b.eval_tree(&t2);
        match &rb { Ev::Ok(vb) if vb == va && a.snapshot() == b.snapshot() => {}, other => return Outcome::violated("meaning-differs", format!("`{}` evaluates to {} but its formatted text `{}` evaluates to {}", shown(src), ra.show(), shown(&f1), other.show())) }
      }
    }
    let mut o = Outcome::held();
    o.tags = tags.into_iter().map(|t| format!("node:{}", t)).collect();
    o
  }
}
