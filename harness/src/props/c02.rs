//! C02 Formulas evaluate according to the documented precedence and left associativity.

use crate::canon::*;
use crate::fw::*;
use crate::sess::*;
use serde_json::{json, Value as J};
use std::collections::BTreeMap;

pub struct C02;

const OPS: [&str; 15] = ["+", "-", "*", "/", "%", "^", "==", "!=", "<", "<=", ">", ">=", "&&", "||", "⊻"];
const ARITH: [&str; 6] = ["+", "-", "*", "/", "%", "^"];
const CMP: [&str; 6] = ["==", "!=", "<", "<=", ">", ">="];
const LOGIC: [&str; 3] = ["&&", "||", "⊻"];

fn level(op: &str) -> u8 {
  match op { "&&" | "||" | "⊻" => 1, "==" | "!=" | "<" | "<=" | ">" | ">=" => 2, "+" | "-" => 3, "*" | "/" | "%" | "**" => 4, "^" => 5, _ => 0 }
}

/// operand token: unary prefix ("", "-", "!"), variable name, transpose suffix
#[derive(Clone, Debug)]
struct Opnd { pre: String, name: String, post: bool }
impl Opnd { fn text(&self) -> String { format!("{}{}{}", self.pre, self.name, if self.post { "'" } else { "" }) } }

#[derive(Clone, Debug)]
enum Tree { Leaf(Opnd), Bin(Box<Tree>, String, Box<Tree>) }

/// reference grouping: 5 binary levels, all left-associative, unary/transpose bind tightest (they live in the leaf)
fn parse_ref(opnds: &[Opnd], ops: &[String]) -> Tree {
  fn climb(opnds: &[Opnd], ops: &[String], pos: &mut usize, min: u8) -> Tree {
    let mut lhs = Tree::Leaf(opnds[*pos].clone());
    while *pos < ops.len() {
      let op = ops[*pos].clone();
      let l = level(&op);
      if l < min { break; }
      *pos += 1;
      let rhs = climb(opnds, ops, pos, l + 1);
      lhs = Tree::Bin(Box::new(lhs), op, Box::new(rhs));
    }
    lhs
  }
  let mut pos = 0;
  climb(opnds, ops, &mut pos, 1)
}

fn render(t: &Tree, top: bool) -> String {
  match t {
    Tree::Leaf(o) => o.text(),
    Tree::Bin(l, op, r) => { let s = format!("{} {} {}", render(l, false), op, render(r, false)); if top { s } else { format!("({})", s) } }
  }
}
fn depth(t: &Tree) -> usize { match t { Tree::Leaf(_) => 0, Tree::Bin(l, _, r) => 1 + depth(l).max(depth(r)) } }

/// random binary tree over the same in-order operand/operator sequence (an explicit parenthesisation)
fn random_tree(opnds: &[Opnd], ops: &[String], rng: &mut Rng) -> Tree {
  if ops.is_empty() { return Tree::Leaf(opnds[0].clone()); }
  let k = rng.below(ops.len() as u64) as usize;
  Tree::Bin(Box::new(random_tree(&opnds[..=k], &ops[..k], rng)), ops[k].clone(), Box::new(random_tree(&opnds[k + 1..], &ops[k + 1..], rng)))
}

fn pool() -> BTreeMap<&'static str, CVal> {
  let mut m = BTreeMap::new();
  for (n, v) in [("a", 2.0), ("b", 3.0), ("c", 5.0), ("d", 7.0), ("e", -3.0), ("f", 0.5), ("g", 0.0), ("h", -2.0), ("k", 4.0)] { m.insert(n, sc_f64(v)); }
  m.insert("t", sc_b(true)); m.insert("u", sc_b(false));
  m.insert("A", CVal::M("f64".into(), 2, 2, vec![sc_f64(1.0), sc_f64(3.0), sc_f64(2.0), sc_f64(4.0)]));
  m.insert("B", CVal::M("f64".into(), 2, 2, vec![sc_f64(0.0), sc_f64(1.0), sc_f64(-1.0), sc_f64(2.0)]));
  m.insert("C", CVal::M("f64".into(), 2, 2, vec![sc_f64(2.0), sc_f64(0.5), sc_f64(5.0), sc_f64(-3.0)]));
  m
}
const NUMS: [&str; 9] = ["a", "b", "c", "d", "e", "f", "g", "h", "k"];
const BOOLS: [&str; 2] = ["t", "u"];
const MATS: [&str; 3] = ["A", "B", "C"];

fn mk_case(out: &mut Vec<Case>, cell: String, tag: &str, opnds: Vec<Opnd>, ops: Vec<String>, alt: Option<Tree>) {
  let t = parse_ref(&opnds, &ops);
  // the unparenthesised text spells each operator with one of the glyphs the grammar documents for it (chosen by a hash; one case in
  // three keeps the first spelling everywhere); the parenthesised and stepwise references always use the first spelling
  let flat = {
    let canon_txt = { let mut s = opnds[0].text(); for (i, op) in ops.iter().enumerate() { s.push_str(&format!(" {} {}", op, opnds[i + 1].text())); } s };
    let h = canon_txt.bytes().fold(0xcbf29ce484222325u64, |h, b| (h ^ b as u64).wrapping_mul(0x100000001b3));
    let mut s = opnds[0].text();
    for (i, op) in ops.iter().enumerate() { let alts = super::c01::spellings(op); let g = if h % 3 == 0 || alts[0] == "?" { op.as_str() } else { alts[((h >> (5 + 3 * (i % 16))) % alts.len() as u64) as usize] }; s.push_str(&format!(" {} {}", g, opnds[i + 1].text())); }
    s
  };
  let (src, tree) = match alt { Some(q) => (render(&q, true), q), None => (flat.clone(), t) };
  if depth(&tree) > 5 { return; }
  out.push(Case { id: format!("{};{};{}", cell, tag, src), cell, input: json!({"src": src, "paren": render(&tree, true), "tree": tree_json(&tree)}) });
}
fn tree_json(t: &Tree) -> J { match t { Tree::Leaf(o) => json!({"leaf": o.text(), "pre": o.pre, "name": o.name, "post": o.post}), Tree::Bin(l, op, r) => json!({"op": op, "l": tree_json(l), "r": tree_json(r)}) } }

fn opnd(name: &str) -> Opnd { Opnd { pre: String::new(), name: name.into(), post: false } }

impl Prop for C02 {
  fn id(&self) -> &'static str { "C02" }
  fn rule(&self) -> String { "operator sequences over {+ - * / % ^ == != < <= > >= && || xor}: all sequences of length <= 3 (3 855), length 4 sampled / exhaustive, type-directed chains up to length 8 (arithmetic inside comparisons inside logic), matrix chains with ** and transpose, unary - and ! on operands; chains of + - * / over real and imaginary LITERAL operands (3 + 4i * 1i); operands are otherwise API-bound variables (half of the cases: inline literals) from a pool that makes grouping observable. For each formula e: interpret(e) must equal interpret(fully parenthesised e) and the bottom-up evaluation of the reference tree with one interpreter call per binary node; random explicit parenthesisations are checked against their own tree. Non-trivial = the formula evaluated to a value under the reference grouping (a type error under both groupings is trivial)".into() }
  fn assumptions(&self) -> Vec<String> { vec!["reference grouping: unary minus / not / transpose tightest, then ^, then * / % **, then + -, then comparisons, then logic; all binary levels left-associative (specification 6.1)".into()] }
  fn floor(&self, tier: Tier) -> usize { if tier == Tier::Quick { 1500 } else { 15000 } }

  fn gen(&self, tier: Tier, seed: u64) -> Vec<Case> {
    let mut out = Vec::new();
    let mut rng = Rng::keyed(seed, "c02");
    let s = |x: &str| x.to_string();
    // exhaustive short sequences over numeric operands, two operand assignments
    for n in 1..=3usize {
      let total = 15usize.pow(n as u32);
      for idx in 0..total {
        let mut ops = Vec::new(); let mut x = idx;
        for _ in 0..n { ops.push(s(OPS[x % 15])); x /= 15; }
        for asg in 0..2 {
          let opnds: Vec<Opnd> = (0..=n).map(|i| { let all_logic = ops.iter().all(|o| level(o) == 1); let name = if all_logic { *rng.pick(&BOOLS) } else { NUMS[(i * 3 + asg * 4 + idx) % NUMS.len()] }; opnd(name) }).collect();
          mk_case(&mut out, format!("len={};strat=exhaustive", n), &format!("a{}", asg), opnds, ops.clone(), None);
        }
      }
    }
    // literal operands, real and imaginary: a spaced `3 + 4i` is a sum of two literals subject to the grammar levels, not one
    // complex literal; all operator sequences of length 1-3 over + - * /, operand patterns drawn from a static pool
    let cops = ["+", "-", "*", "/"];
    for n in 1..=3usize {
      for idx in 0..4usize.pow(n as u32) {
        let mut ops = Vec::new(); let mut x = idx;
        for _ in 0..n { ops.push(s(cops[x % 4])); x /= 4; }
        let reps = if tier == Tier::Quick { 3 } else { 12 };
        for r in 0..reps {
          let mut lr = Rng::keyed(seed, &format!("c02lit{}.{}.{}", n, idx, r));
          // real literals only where both neighbouring operators are `+` (the other real-complex operators are not defined)
          let reals = ["3", "2", "0.5", "7"]; let imags = ["4i", "1i", "2i", "1+2i"];
          let opnds: Vec<Opnd> = (0..=n).map(|i| {
            let real_ok = (i == 0 || ops[i - 1] == "+") && (i == n || ops[i] == "+");
            let mut o = opnd(if real_ok && (r + i) % 2 == 0 { *lr.pick(&reals) } else { *lr.pick(&imags) });
            if lr.chance(1, 8) && !o.name.contains('+') && i == 0 { o.pre = "-".into(); }
            o }).collect();
          mk_case(&mut out, format!("len={};strat=complex-literals", n), &format!("r{}", r), opnds, ops.clone(), None);
        }
      }
    }
    // comparison chains whose later comparison is an (in)equality with a BOOLEAN operand: a > b == t is (a > b) == t
    let cmps = ["<", "<=", ">", ">=", "==", "!="];
    for (ci, c1) in cmps.iter().enumerate() { for (ei, e1) in ["==", "!="].iter().enumerate() {
      for r in 0..(if tier == Tier::Quick { 2 } else { 6 }) {
        let mut lr = Rng::keyed(seed, &format!("c02cmp{}.{}.{}", ci, ei, r));
        let (x, y) = (*lr.pick(&NUMS), *lr.pick(&NUMS)); let (t, u) = (*lr.pick(&BOOLS), *lr.pick(&BOOLS));
        mk_case(&mut out, "len=2;strat=comparison-chain".into(), &format!("r{}", r), vec![opnd(x), opnd(y), opnd(t)], vec![s(c1), s(e1)], None);
        mk_case(&mut out, "len=3;strat=comparison-chain".into(), &format!("r{}", r), vec![opnd(x), opnd(y), opnd(t), opnd(u)], vec![s(c1), s(e1), s(if r % 2 == 0 { "!=" } else { "==" })], None);
        mk_case(&mut out, "len=3;strat=comparison-chain".into(), &format!("a{}", r), vec![opnd(x), opnd(y), opnd(*lr.pick(&NUMS)), opnd(t)], vec![s(*lr.pick(&["+", "-", "*"])), s(c1), s(e1)], None);
      }
    } }
    // length 4: sampled (quick) / exhaustive (thorough)
    let n4 = if tier == Tier::Quick { 1500 } else { 50625 };
    for i in 0..n4 {
      let idx = if tier == Tier::Quick { rng.below(50625) as usize } else { i };
      let mut ops = Vec::new(); let mut x = idx;
      for _ in 0..4 { ops.push(s(OPS[x % 15])); x /= 15; }
      let opnds: Vec<Opnd> = (0..5).map(|_| opnd(*rng.pick(&NUMS))).collect();
      mk_case(&mut out, "len=4;strat=sequence".into(), "s", opnds, ops, None);
    }
    // type-directed chains: arithmetic chains, comparisons of arithmetic, logic of comparisons, with unary operators
    let nt = if tier == Tier::Quick { 2500 } else { 30000 };
    for _ in 0..nt {
      let shape = rng.below(4);
      let mut opnds = Vec::new(); let mut ops = Vec::new();
      let mut arith = |rng: &mut Rng, opnds: &mut Vec<Opnd>, ops: &mut Vec<String>, n: usize| {
        for i in 0..=n { let mut o = opnd(*rng.pick(&NUMS)); if rng.chance(1, 5) { o.pre = "-".into(); } opnds.push(o); if i < n { ops.push(s(*rng.pick(&ARITH))); } }
      };
      let cell = match shape {
        0 => { let n = 2 + rng.below(6) as usize; arith(&mut rng, &mut opnds, &mut ops, n); format!("len={};strat=arith", n) }
        1 => { let n1 = 1 + rng.below(3) as usize; arith(&mut rng, &mut opnds, &mut ops, n1); ops.push(s(*rng.pick(&CMP))); let n2 = rng.below(3) as usize; arith(&mut rng, &mut opnds, &mut ops, n2); format!("len={};strat=cmp", ops.len()) }
        2 => {
          let terms = 2 + rng.below(2) as usize;
          for t in 0..terms {
            if rng.chance(1, 3) { let mut o = opnd(*rng.pick(&BOOLS)); if rng.chance(1, 3) { o.pre = "!".into(); } opnds.push(o); }
            else { let n1 = rng.below(2) as usize; arith(&mut rng, &mut opnds, &mut ops, n1); ops.push(s(*rng.pick(&CMP))); let n2 = rng.below(2) as usize; arith(&mut rng, &mut opnds, &mut ops, n2); }
            if t + 1 < terms { ops.push(s(*rng.pick(&LOGIC))); }
          }
          format!("len={};strat=logic", ops.len())
        }
        _ => {
          let n = 1 + rng.below(3) as usize;
          for i in 0..=n { let mut o = opnd(*rng.pick(&MATS)); if rng.chance(1, 4) { o.post = true; } if rng.chance(1, 6) { o.pre = "-".into(); } opnds.push(o); if i < n { ops.push(s(*rng.pick(&["**", "+", "-", "*", "**"]))); } }
          format!("len={};strat=matrix", n)
        }
      };
      if ops.is_empty() || ops.len() > 8 { continue; }
      // either the unparenthesised formula, or a random explicit parenthesisation
      if rng.chance(1, 4) && ops.len() <= 5 { let q = random_tree(&opnds, &ops, &mut rng); mk_case(&mut out, format!("{};explicit-parens", cell), "q", opnds, ops, Some(q)); }
      else { mk_case(&mut out, cell, "t", opnds, ops, None); }
    }
    // de-duplicate ids
    let mut seen = std::collections::BTreeSet::new();
    out.retain(|c| seen.insert(c.id.clone()));
    out
  }

  fn run(&self, case: &Case, _flavour: &str) -> Outcome {
    let mut src = case.input["src"].as_str().unwrap().to_string();
    let mut paren = case.input["paren"].as_str().unwrap().to_string();
    let p = pool();
    let mut s = Sess::new();
    for (n, v) in p.iter() { s.bind(n, v, false); }
    // operand forms: in half of the cases (hash of the case id) the operands are written as inline literals instead of
    // variables, in the formula and in its parenthesised twin alike (the stepwise evaluation keeps variables)
    let h = case.id.bytes().fold(0xcbf29ce484222325u64, |h, b| (h ^ b as u64).wrapping_mul(0x100000001b3));
    let mut form = "variables";
    if (h >> 11) & 1 == 1 {
      fn replace_word(text: &str, name: &str, repl: &str) -> String {
        let chars: Vec<char> = text.chars().collect(); let n: Vec<char> = name.chars().collect(); let mut out = String::new(); let mut i = 0;
        while i < chars.len() {
          let word = |c: char| c.is_alphanumeric() || c == '_';
          if chars[i..].starts_with(&n[..]) && (i == 0 || !word(chars[i - 1])) && (i + n.len() == chars.len() || !word(chars[i + n.len()])) { out.push_str(repl); i += n.len(); } else { out.push(chars[i]); i += 1; }
        }
        out
      }
      for (n, v) in p.iter() {
        let Some(l) = lit(v) else { continue };
        if l.starts_with('-') { continue; }
        if let Ev::Ok(pv) = s.eval(&l) { if &pv == v { src = replace_word(&src, n, &l); paren = replace_word(&paren, n, &l); form = "literals"; } }
      }
    }
    let (src, paren) = (src.as_str(), paren.as_str());
    let r1 = s.eval(src);
    let r2 = s.eval(paren);
    if let Ev::Panic(m) = &r1 { return Outcome::violated("panic-escaped", format!("{}: {}", src, m)); }
    if let Ev::ParseErr(m) = &r1 { return if r2.is_ok() { Outcome::violated("parse-rejected", format!("`{}` does not parse ({}) but `{}` evaluates to {}", src, m, paren, r2.show())) } else { Outcome::trivial().tag("parse-rejected") }; }
    if let Ev::ParseErr(m) = &r2 { return Outcome::inconclusive("paren-parse", format!("{} / {}: {}", src, paren, m)); }
    // (b) stepwise evaluation of the reference tree
    let mut t = Sess::new();
    for (n, v) in p.iter() { t.bind(n, v, false); }
    let r3 = eval_tree(&case.input["tree"], &mut t);
    let same = |x: &Ev, y: &Ev| match (x, y) { (Ev::Ok(a), Ev::Ok(b)) => a == b, (Ev::Ok(_), _) | (_, Ev::Ok(_)) => false, _ => true };
    if !same(&r1, &r2) { return Outcome::violated("differs-from-parenthesised", format!("`{}` = {} but `{}` = {}", src, r1.show(), paren, r2.show())); }
    if !same(&r1, &r3) { return Outcome::violated("differs-from-stepwise", format!("`{}` = {} but evaluating the reference tree `{}` one node at a time gives {}", src, r1.show(), paren, r3.show())); }
    if r1.is_ok() { Outcome::held().tag(format!("operands:{}", form)) } else { Outcome::trivial() }
  }
}

fn eval_tree(t: &J, s: &mut Sess) -> Ev {
  if let Some(leaf) = t.get("leaf").and_then(|x| x.as_str()) { return s.eval(leaf); }
  let op = t["op"].as_str().unwrap();
  let l = eval_tree(&t["l"], s); let r = eval_tree(&t["r"], s);
  match (l, r) {
    (Ev::Ok(a), Ev::Ok(b)) => {
      let (va, vb) = (match guarded(|| to_value(&a)) { Ok(v) => v, Err(_) => return Ev::Err("harness".into(), "unbindable".into()) }, match guarded(|| to_value(&b)) { Ok(v) => v, Err(_) => return Ev::Err("harness".into(), "unbindable".into()) });
      s.bind_value("p0", va, false); s.bind_value("q0", vb, false);
      s.eval(&format!("p0 {} q0", op))
    }
    (Ev::Ok(_), e) => e,
    (e, _) => e,
  }
}
