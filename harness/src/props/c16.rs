//! C16 Function and match arms: the first arm that matches is the one that runs.

use crate::canon::*;
use crate::fw::*;
use crate::sess::*;
use serde_json::{json, Value as J};

pub struct C16;

#[derive(Clone, Debug, PartialEq)]
enum Pat { Lit(u64), Var(&'static str), Wild, Tup(Vec<Pat>) }

impl Pat {
  fn text(&self) -> String { match self { Pat::Lit(k) => format!("{}", k), Pat::Var(n) => n.to_string(), Pat::Wild => "*".into(), Pat::Tup(v) => format!("({})", v.iter().map(|p| p.text()).collect::<Vec<_>>().join(", ")) } }
  /// Some(bindings) if the pattern matches the argument list
  fn matches(&self, args: &[u64]) -> Option<Vec<(&'static str, u64)>> {
    match self {
      Pat::Wild => Some(vec![]),
      Pat::Lit(k) => if args.len() == 1 && args[0] == *k { Some(vec![]) } else { None },
      Pat::Var(n) => if args.len() == 1 { Some(vec![(*n, args[0])]) } else { None },
      // a variable named twice in one pattern matches only equal parts
      Pat::Tup(ps) => { if ps.len() != args.len() { return None; } let mut b: Vec<(&'static str, u64)> = vec![]; for (p, a) in ps.iter().zip(args.iter()) { for (n, v) in p.matches(&[*a])? { if let Some((_, v0)) = b.iter().find(|(k, _)| *k == n) { if *v0 != v { return None; } } else { b.push((n, v)); } } } Some(b) }
    }
  }
}

/// arm body: constant tag plus every variable the pattern binds, weighted by its position (so that each binding is observable)
fn body(tag: u64, pat: &Pat) -> (String, Box<dyn Fn(&[(&'static str, u64)]) -> u64>) {
  fn vars(p: &Pat, out: &mut Vec<&'static str>) { match p { Pat::Var(n) => out.push(*n), Pat::Tup(v) => v.iter().for_each(|q| vars(q, out)), _ => {} } }
  let mut vs = Vec::new(); vars(pat, &mut vs); { let mut seen: Vec<&'static str> = Vec::new(); vs.retain(|v| if seen.contains(v) { false } else { seen.push(*v); true }); }
  let w = [1u64, 10, 1000];
  let mut txt = format!("{}u64", tag);
  for (i, n) in vs.iter().enumerate() { if i == 0 { txt.push_str(&format!(" + {}", n)); } else { txt.push_str(&format!(" + {}u64 * {}", w[i.min(2)], n)); } }
  (txt, Box::new(move |b| tag + vs.iter().enumerate().map(|(i, n)| w[i.min(2)] * b.iter().find(|(k, _)| k == n).map(|x| x.1).unwrap_or(0)).sum::<u64>()))
}

fn permutations<T: Clone>(v: &[T]) -> Vec<Vec<T>> {
  if v.len() <= 1 { return vec![v.to_vec()]; }
  let mut out = Vec::new();
  for i in 0..v.len() { let mut rest = v.to_vec(); let x = rest.remove(i); for mut p in permutations(&rest) { p.insert(0, x.clone()); out.push(p); } }
  out
}

fn push_arm_family(out: &mut Vec<Case>, cellname: &str, arms: &[Pat], nargs: usize, as_match: bool) {
  // nargs 23: subjects of mixed arity (pairs and triples), match expressions only
  let dom: Vec<Vec<u64>> = if nargs == 1 { (0..4).map(|a| vec![a]).collect() } else if nargs == 2 { (0..3).flat_map(|a| (0..3).map(move |b| vec![a, b])).collect() }
    else { let mut d: Vec<Vec<u64>> = (0..3).flat_map(|a| (0..3).map(move |b| vec![a, b])).collect(); for a in 0..2 { for b in 0..2 { for c in 1..3 { d.push(vec![a, b, c]); } } } d };
  for (pi, perm) in permutations(arms).into_iter().enumerate() {
    let has_wild = perm.iter().any(|p| *p == Pat::Wild);
    let mut arm_txt = Vec::new(); let mut evals: Vec<(Pat, Box<dyn Fn(&[(&'static str, u64)]) -> u64>)> = Vec::new();
    for (i, p) in perm.iter().enumerate() { let (btxt, f) = body(100 * (i as u64 + 1), p); arm_txt.push(format!("  | {} => {}", p.text(), btxt)); evals.push((p.clone(), f)); }
    let params = if nargs == 1 { "x<u64>".to_string() } else { "x<u64>, y<u64>".to_string() };
    let def = format!("fam({}) => <u64>\n{}.", params, arm_txt.join("\n"));
    let mut calls = Vec::new();
    for args in dom.iter() {
      // a match expression without a wildcard arm is rejected as non-exhaustive, whatever its other arms cover
      let expect = if as_match && !has_wild { None } else { evals.iter().find_map(|(p, f)| p.matches(args).map(|b| f(&b))) };
      let argtxt = args.iter().map(|a| format!("{}u64", a)).collect::<Vec<_>>().join(", ");
      let src = if as_match { let subject = if nargs == 1 { argtxt.clone() } else { format!("({})", argtxt) }; format!("r := {}?\n{}.", subject, arm_txt.join("\n")) } else { format!("fam({})", argtxt) };
      calls.push(json!({"src": src, "expect": expect, "args": args}));
      // the same call with arguments held in variables (all, only the first, only the last), chosen by position
      let ci = calls.len();
      let form = (pi + ci) % 3;
      let names: Vec<String> = (0..args.len()).map(|j| format!("q{}x{}", ci, j)).collect();
      let held: Vec<bool> = (0..args.len()).map(|j| match form { 0 => true, 1 => j == 0, _ => j + 1 == args.len() }).collect();
      let prelude = args.iter().enumerate().filter(|(j, _)| held[*j]).map(|(j, a)| format!("{} := {}u64", names[j], a)).collect::<Vec<_>>().join("\n");
      let argtxt2 = args.iter().enumerate().map(|(j, a)| if held[j] { names[j].clone() } else { format!("{}u64", a) }).collect::<Vec<_>>().join(", ");
      let src2 = if as_match { let subject = if nargs == 1 { argtxt2.clone() } else { format!("({})", argtxt2) }; format!("r := {}?\n{}.", subject, arm_txt.join("\n")) } else { format!("fam({})", argtxt2) };
      calls.push(json!({"src": src2, "expect": expect, "args": args, "prelude": prelude, "form": format!("vars{}", form)}));
    }
    let order = perm.iter().map(|p| p.text()).collect::<Vec<_>>().join(" ; ");
    out.push(Case { id: format!("{};perm={};order={}", cellname, pi, order), cell: cellname.to_string(), input: json!({"mode": "arms", "def": if as_match { J::Null } else { json!(def) }, "calls": calls, "as_match": as_match, "has_wild": has_wild}) });
  }
}

impl Prop for C16 {
  fn id(&self) -> &'static str { "C16" }
  fn rule(&self) -> String { "arm families of 2-4 arms over {literal, variable, wildcard, tuple of those} in EVERY permutation, as function definitions (one and two parameters) and as match expressions, applied to every argument of a small domain (so that 0, 1, 2 or 3 arms match); match guards over bound variables; array head / last / rest patterns; enum variants with payloads (exhaustive without wildcard); recursion (factorial 0..20, power, fibonacci 0..15, gcd on [0,12]^2, tail-recursive countdown of depth up to 2*10^5) against the mathematical recurrence; scalar functions applied to matrices; wrong arity, no matching arm, non-exhaustive match. Arm bodies are tagged constants plus the bound variable, so the selected arm and its binding are identifiable from the value. Non-trivial = at least one call of the case evaluated".into() }
  fn assumptions(&self) -> Vec<String> { vec!["variable and wildcard patterns match any argument; a bare `*` matches any argument list; literal patterns match equal values; guards are evaluated with the pattern's bindings".into()] }
  fn floor(&self, _tier: Tier) -> usize { 150 }
  fn watchdog(&self, _t: Tier) -> std::time::Duration { std::time::Duration::from_secs(180) }

  fn gen(&self, tier: Tier, _seed: u64) -> Vec<Case> {
    let _ = tier;
    let mut out = Vec::new();
    use Pat::*;
    // one-parameter families
    let fams1: Vec<(&str, Vec<Pat>)> = vec![
      ("f1;arms=lit0,lit1,var", vec![Lit(0), Lit(1), Var("n")]),
      ("f1;arms=lit0,var,wild", vec![Lit(0), Var("n"), Wild]),
      ("f1;arms=lit0,lit2,wild", vec![Lit(0), Lit(2), Wild]),
      ("f1;arms=lit1,lit1,wild", vec![Lit(1), Lit(1), Wild]),
      ("f1;arms=lit0,lit1,lit2,wild", vec![Lit(0), Lit(1), Lit(2), Wild]),
      ("f1;arms=lit0,lit3", vec![Lit(0), Lit(3)]),
      ("f1;arms=var,wild", vec![Var("n"), Wild]),
    ];
    for (name, arms) in fams1.iter() { push_arm_family(&mut out, &format!("function;{}", name), arms, 1, false); push_arm_family(&mut out, &format!("match;{}", name), arms, 1, true); }
    let fams2: Vec<(&str, Vec<Pat>)> = vec![
      ("f2;arms=(0,y),(x,0),(x,y)", vec![Tup(vec![Lit(0), Var("y")]), Tup(vec![Var("x"), Lit(0)]), Tup(vec![Var("x"), Var("y")])]),
      ("f2;arms=(0,*),(*,0),wild", vec![Tup(vec![Lit(0), Wild]), Tup(vec![Wild, Lit(0)]), Wild]),
      ("f2;arms=(1,1),(1,y),(x,1),(*,*)", vec![Tup(vec![Lit(1), Lit(1)]), Tup(vec![Lit(1), Var("y")]), Tup(vec![Var("x"), Lit(1)]), Tup(vec![Wild, Wild])]),
      ("f2;arms=(0,0),(x,y)", vec![Tup(vec![Lit(0), Lit(0)]), Tup(vec![Var("x"), Var("y")])]),
      ("f2;arms=(2,y),(x,2)", vec![Tup(vec![Lit(2), Var("y")]), Tup(vec![Var("x"), Lit(2)])]),
    ];
    for (name, arms) in fams2.iter() { push_arm_family(&mut out, &format!("function;{}", name), arms, 2, false); push_arm_family(&mut out, &format!("match;{}", name), arms, 2, true); }
    // the same variable name at different positions of different arms: every arm starts from fresh bindings
    let fams2x: Vec<(&str, Vec<Pat>)> = vec![
      ("f2x;arms=(a,0),(b,a)", vec![Tup(vec![Var("a"), Lit(0)]), Tup(vec![Var("b"), Var("a")])]),
      ("f2x;arms=(a,1),(0,a),(b,a)", vec![Tup(vec![Var("a"), Lit(1)]), Tup(vec![Lit(0), Var("a")]), Tup(vec![Var("b"), Var("a")])]),
      ("f2x;arms=(x,2),(y,x),wild", vec![Tup(vec![Var("x"), Lit(2)]), Tup(vec![Var("y"), Var("x")]), Wild]),
      ("f2x;arms=(1,p),(p,q),(q,p)", vec![Tup(vec![Lit(1), Var("p")]), Tup(vec![Var("p"), Lit(0)]), Tup(vec![Var("q"), Var("p")])]),
    ];
    for (name, arms) in fams2x.iter() { push_arm_family(&mut out, &format!("function;{}", name), arms, 2, false); push_arm_family(&mut out, &format!("match;{}", name), arms, 2, true); }
    // a variable named twice in one pattern (an equality constraint between the matched parts)
    let fams2r: Vec<(&str, Vec<Pat>)> = vec![
      ("f2r;arms=(a,a),(a,b)", vec![Tup(vec![Var("a"), Var("a")]), Tup(vec![Var("a"), Var("b")])]),
      ("f2r;arms=(a,a),wild", vec![Tup(vec![Var("a"), Var("a")]), Wild]),
      ("f2r;arms=(0,a),(a,a),(a,b)", vec![Tup(vec![Lit(0), Var("a")]), Tup(vec![Var("a"), Var("a")]), Tup(vec![Var("a"), Var("b")])]),
      ("f2r;arms=(a,a),(1,b),wild", vec![Tup(vec![Var("a"), Var("a")]), Tup(vec![Lit(1), Var("b")]), Wild]),
    ];
    for (name, arms) in fams2r.iter() { push_arm_family(&mut out, &format!("function;{}", name), arms, 2, false); push_arm_family(&mut out, &format!("match;{}", name), arms, 2, true); }
    let famsr3: Vec<(&str, Vec<Pat>)> = vec![("f23r;arms=(a,b,a),(a,a),wild", vec![Tup(vec![Var("a"), Var("b"), Var("a")]), Tup(vec![Var("a"), Var("a")]), Wild])];
    for (name, arms) in famsr3.iter() { push_arm_family(&mut out, &format!("match;{}", name), arms, 23, true); }
    // random arm families over the full two-position vocabulary {0, 1, 2, variable (a / b, also repeated), *}: 2-4 arms, every permutation
    {
      let nfam = if tier == Tier::Quick { 24 } else { 400 };
      let pos = |rng: &mut Rng, first: bool| -> Pat { match rng.below(7) { 0 => Lit(0), 1 => Lit(1), 2 => Lit(2), 3 | 4 => Var(if first { "a" } else if rng.chance(1, 3) { "a" } else { "b" }), 5 => Var(if first { "b" } else { "a" }), _ => Wild } };
      for i in 0..nfam {
        let mut rng = Rng::keyed(_seed, &format!("c16fam{}", i));
        let n = 2 + rng.below(3) as usize;
        let mut arms: Vec<Pat> = (0..n).map(|_| { let p0 = pos(&mut rng, true); let p1 = pos(&mut rng, false); Tup(vec![p0, p1]) }).collect();
        if rng.chance(1, 2) { arms.push(Wild); }
        if arms.len() > 4 { arms.truncate(4); }
        let name = format!("frand;arms={}", arms.iter().map(|p| p.text()).collect::<Vec<_>>().join(","));
        push_arm_family(&mut out, &format!("function;{}", name), &arms, 2, false);
        push_arm_family(&mut out, &format!("match;{}", name), &arms, 2, true);
      }
    }
    // tuple patterns of different arity against subjects of both arities (match expressions)
    let famsm: Vec<(&str, Vec<Pat>)> = vec![
      ("f23;arms=(a,b),(a,b,c),wild", vec![Tup(vec![Var("a"), Var("b")]), Tup(vec![Var("a"), Var("b"), Var("c")]), Wild]),
      ("f23;arms=(0,b),(a,b,1),(a,b),wild", vec![Tup(vec![Lit(0), Var("b")]), Tup(vec![Var("a"), Var("b"), Lit(1)]), Tup(vec![Var("a"), Var("b")]), Wild]),
      ("f23;arms=(a,*),(*,b,*),wild", vec![Tup(vec![Var("a"), Wild]), Tup(vec![Wild, Var("b"), Wild]), Wild]),
    ];
    for (name, arms) in famsm.iter() { push_arm_family(&mut out, &format!("match;{}", name), arms, 23, true); }
    // guards in match expressions: (pattern, guard text, predicate)
    let guards: Vec<(&str, &str, fn(u64) -> bool)> = vec![("x, x > 1u64", "gt1", |x| x > 1), ("x, x == 2u64", "eq2", |x| x == 2), ("x, x < 3u64", "lt3", |x| x < 3), ("x, x != 0u64", "ne0", |x| x != 0)];
    for perm in permutations(&[0usize, 1, 2, 3]) {
      let sel: Vec<usize> = perm[..3].to_vec();
      let mut calls = Vec::new();
      let arm_txt: Vec<String> = sel.iter().enumerate().map(|(i, g)| format!("  | {} => {}u64 + x", guards[*g].0, 100 * (i + 1))).collect();
      for v in 0..5u64 {
        let expect = sel.iter().enumerate().find(|(_, g)| (guards[**g].2)(v)).map(|(i, _)| 100 * (i as u64 + 1) + v).unwrap_or(900);
        calls.push(json!({"src": format!("r := {}u64?\n{}\n  | * => 900u64.", v, arm_txt.join("\n")), "expect": expect, "args": [v]}));
      }
      out.push(Case { id: format!("match;guards;order={:?}", sel.iter().map(|g| guards[*g].1).collect::<Vec<_>>()), cell: "match;guards".into(), input: json!({"mode": "arms", "def": J::Null, "calls": calls, "as_match": true, "has_wild": true}) });
    }
    // tuple guards
    for (i, order) in permutations(&["a > b", "a < b", "a == b"]).into_iter().enumerate() {
      let mut calls = Vec::new();
      let arm_txt: Vec<String> = order.iter().enumerate().map(|(k, g)| format!("  | (a, b), {} => {}u64 + a", g, 100 * (k + 1))).collect();
      for a in 0..3u64 { for b in 0..3u64 {
        let expect = order.iter().enumerate().find(|(_, g)| match **g { "a > b" => a > b, "a < b" => a < b, _ => a == b }).map(|(k, _)| 100 * (k as u64 + 1) + a).unwrap();
        calls.push(json!({"src": format!("r := ({}u64, {}u64)?\n{}\n  | * => 900u64.", a, b, arm_txt.join("\n")), "expect": expect, "args": [a, b]}));
      } }
      out.push(Case { id: format!("match;tuple-guards;order={}", i), cell: "match;tuple-guards".into(), input: json!({"mode": "arms", "def": J::Null, "calls": calls, "as_match": true, "has_wild": true}) });
    }
    // array patterns
    for (name, arms, f) in [
      ("head", "  | [h …] => h\n  | * => 999u64.", (|v: &Vec<u64>| if v.is_empty() { 999 } else { v[0] }) as fn(&Vec<u64>) -> u64),
      ("last", "  | [… l] => l\n  | * => 999u64.", |v: &Vec<u64>| if v.is_empty() { 999 } else { v[v.len() - 1] }),
      ("head-last", "  | [h … l] => h * 100u64 + l\n  | * => 999u64.", |v: &Vec<u64>| if v.len() >= 2 { v[0] * 100 + v[v.len() - 1] } else { 999 }),
      ("rest", "  | [a, b | rest] => a * 100u64 + b\n  | * => 999u64.", |v: &Vec<u64>| if v.len() >= 2 { v[0] * 100 + v[1] } else { 999 }),
      ("suffix-two", "  | [… a, b] => a * 100u64 + b\n  | * => 999u64.", |v: &Vec<u64>| if v.len() >= 2 { v[v.len() - 2] * 100 + v[v.len() - 1] } else { 999 }),
      ("prefix-two-suffix-two", "  | [p, q … a, b] => p * 1000u64 + q * 100u64 + a * 10u64 + b\n  | * => 999u64.", |v: &Vec<u64>| if v.len() >= 4 { v[0] * 1000 + v[1] * 100 + v[v.len() - 2] * 10 + v[v.len() - 1] } else { 999 }),
      ("suffix-literals", "  | [… 5u64, 4u64] => 1u64\n  | [… 4u64, 5u64] => 2u64\n  | * => 999u64.", |v: &Vec<u64>| if v.len() >= 2 && v[v.len() - 2] == 5 && v[v.len() - 1] == 4 { 1 } else if v.len() >= 2 && v[v.len() - 2] == 4 && v[v.len() - 1] == 5 { 2 } else { 999 }),
      ("prefix-literals", "  | [7u64, 8u64 …] => 1u64\n  | [8u64, 7u64 …] => 2u64\n  | * => 999u64.", |v: &Vec<u64>| if v.len() >= 2 && v[0] == 7 && v[1] == 8 { 1 } else if v.len() >= 2 && v[0] == 8 && v[1] == 7 { 2 } else { 999 }),
    ] {
      let mut calls = Vec::new();
      for v in [vec![7u64, 8, 9], vec![4, 5], vec![1, 2, 3, 4, 5], vec![6, 6, 6, 6], vec![8, 7, 5, 4], vec![5, 4, 3]] {
        let lit = format!("[{}]", v.iter().map(|x| format!("{}u64", x)).collect::<Vec<_>>().join(" "));
        calls.push(json!({"src": format!("r := {}?\n{}", lit, arms), "expect": f(&v), "args": v}));
      }
      out.push(Case { id: format!("match;array;{}", name), cell: format!("match;array;{}", name), input: json!({"mode": "arms", "def": J::Null, "calls": calls, "as_match": true, "has_wild": true}) });
    }
    // FUNCTION arms with array patterns whose variables are named like the parameter, subscripted or used whole in the body:
    // inside the arm the name denotes the matched part, not the argument
    for (name, def, f) in [
      ("tail-subscript", "second(xs<[u64]>) => <u64>\n  | [x | xs] => xs[1]\n  | * => 999u64.", (|v: &Vec<u64>| if v.len() >= 2 { v[1] } else { 999 }) as fn(&Vec<u64>) -> u64),
      ("tail-subscript-renamed", "secondr(xs<[u64]>) => <u64>\n  | [x | rest] => rest[1]\n  | * => 999u64.", |v: &Vec<u64>| if v.len() >= 2 { v[1] } else { 999 }),
      ("head-same-name", "firstx(xs<[u64]>) => <u64>\n  | [xs …] => xs + 1u64\n  | * => 999u64.", |v: &Vec<u64>| if !v.is_empty() { v[0] + 1 } else { 999 }),
      ("last-subscript-prefix", "lastp(xs<[u64]>) => <u64>\n  | [a, b | xs] => a * 100u64 + xs[1]\n  | * => 999u64.", |v: &Vec<u64>| if v.len() >= 3 { v[0] * 100 + v[2] } else { 999 }),
    ] {
      let fname = def.split('(').next().unwrap();
      let mut calls = Vec::new();
      for (ci, v) in [vec![10u64, 20, 30], vec![4, 5], vec![1, 2, 3, 4, 5], vec![6, 7, 8, 9]].iter().enumerate() {
        // ([a, b | xs] matches a two-element vector with an empty tail, whose first element does not exist)
        if name == "last-subscript-prefix" && v.len() == 2 { continue; }
        let lit = format!("[{}]", v.iter().map(|x| format!("{}u64", x)).collect::<Vec<_>>().join(" "));
        calls.push(json!({"src": format!("{}({})", fname, lit), "expect": f(v), "args": v}));
        calls.push(json!({"src": format!("{}(xs{})", fname, ci), "expect": f(v), "args": v, "prelude": format!("xs{} := {}", ci, lit)}));
      }
      // a global named like the parameter holds another vector
      calls.push(json!({"src": format!("{}([1u64 2u64 3u64])", fname), "expect": f(&vec![1, 2, 3]), "args": [1, 2, 3], "prelude": "xs := [70u64 80u64 90u64]"}));
      out.push(Case { id: format!("function;array;{}", name), cell: format!("function;array;{}", name), input: json!({"mode": "arms", "def": def, "calls": calls, "as_match": false, "has_wild": true}) });
    }
    // array patterns over EVERY numeric element kind (the matcher slices the matrix with one arm per kind), as function arms
    // and as match arms, arguments written inline and held in variables
    for k in crate::refm::REAL_KINDS.iter().filter(|k| **k != "r64") {
      for pat in ["tail-first", "prefix2", "ends", "head", "last", "tail-whole"] {
        for (vi, v) in [vec![7i64, 8, 9], vec![4, 5], vec![1, 2, 3, 4, 5], vec![6], vec![8, 7, 5, 4]].iter().enumerate() {
          for form in ["function", "function-var", "match"] {
            if tier == Tier::Quick && (vi + pat.len() + k.len() + form.len() + _seed as usize) % 3 != 0 { continue; }
            out.push(Case { id: format!("arraykind;kind={};pat={};form={};v={}", k, pat, form, vi), cell: format!("arraykind;kind={};pat={}", k, pat), input: json!({"mode": "arraykind", "kind": k, "pat": pat, "form": form, "v": v}) });
          }
        }
      }
    }
    // compound patterns NESTED in a tuple pattern (tuple in tuple, three levels, a literal inside the inner tuple, an array
    // pattern as one position of a multi-argument function arm or of a matched tuple)
    {
      let mut calls = Vec::new();
      for (a, b, c) in [(1u64, 2u64, 3u64), (0, 2, 3), (4, 0, 9), (0, 0, 0)] {
        calls.push(json!({"src": format!("r := (({}u64, {}u64), {}u64)?\n  | ((0, b), c) => 500u64 + b * 10u64 + c\n  | ((a, b), c) => a * 100u64 + b * 10u64 + c\n  | * => 999u64.", a, b, c), "expect": if a == 0 { 500 + b * 10 + c } else { a * 100 + b * 10 + c }, "args": [a, b, c]}));
        calls.push(json!({"src": format!("r := ({}u64, ({}u64, ({}u64, 4u64)))?\n  | (a, (b, (c, d))) => a * 1000u64 + b * 100u64 + c * 10u64 + d\n  | * => 999u64.", a, b, c), "expect": a * 1000 + b * 100 + c * 10 + 4, "args": [a, b, c]}));
        calls.push(json!({"src": format!("r := ([{}u64 {}u64 {}u64], {}u64)?\n  | ([h | t], 0) => h + 700u64\n  | ([h | t], k) => h + k\n  | * => 999u64.", a + 1, b + 1, c + 1, a), "expect": if a == 0 { a + 1 + 700 } else { a + 1 + a }, "args": [a, b, c]}));
      }
      out.push(Case { id: "match;nested;tuple".into(), cell: "match;nested".into(), input: json!({"mode": "arms", "def": J::Null, "calls": calls, "as_match": true, "has_wild": true}) });
      let mut calls = Vec::new();
      for (ci, (v, n)) in [(vec![5u64, 6], 0u64), (vec![5, 6], 2), (vec![9], 0), (vec![7, 1, 1], 3)].into_iter().enumerate() {
        let lit = format!("[{}]", v.iter().map(|x| format!("{}u64", x)).collect::<Vec<_>>().join(" "));
        calls.push(json!({"src": format!("nf({}, {}u64)", lit, n), "expect": if n == 0 { v[0] } else { v[0] + n }, "args": [v[0], n]}));
        calls.push(json!({"src": format!("nf(nv{}, nn{})", ci, ci), "expect": if n == 0 { v[0] } else { v[0] + n }, "args": [v[0], n], "prelude": format!("nv{} := {}\nnn{} := {}u64", ci, lit, ci, n)}));
      }
      out.push(Case { id: "function;nested;array-in-tuple".into(), cell: "function;nested".into(), input: json!({"mode": "arms", "def": "nf(xs<[u64]>, n<u64>) => <u64>\n  | ([x …], 0u64) => x\n  | ([x …], n) => x + n\n  | * => 999u64.", "calls": calls, "as_match": false, "has_wild": true}) });
    }
    // enum variants with payload: exhaustive without wildcard, every arm order
    for (i, order) in permutations(&[":red(v) => 100u64 + v", ":green(v) => 200u64 + v", ":blue => 300u64"]).into_iter().enumerate() {
      let mut calls = Vec::new();
      for (val, exp) in [(":red(5u64)", 105u64), (":green(7u64)", 207), (":blue", 300)] {
        calls.push(json!({"src": format!("c<color> := {}\nr := c?\n{}.", val, order.iter().map(|a| format!("  | {}", a)).collect::<Vec<_>>().join("\n")), "expect": exp, "args": [], "fresh": true, "prelude": "<color> := :red<u64> | :green<u64> | :blue"}));
      }
      out.push(Case { id: format!("match;enum;order={}", i), cell: "match;enum".into(), input: json!({"mode": "arms", "def": J::Null, "calls": calls, "as_match": true, "has_wild": true}) });
    }
    // recursion against the recurrence
    let deep = if tier == Tier::Quick { 20000u64 } else { 200000 };
    let fact: Vec<J> = (0..=20u64).map(|n| json!({"src": format!("factorial({}u64)", n), "expect": (1..=n).product::<u64>(), "args": [n]})).collect();
    out.push(Case { id: "recursion;factorial".into(), cell: "recursion;factorial".into(), input: json!({"mode": "arms", "def": "factorial(x<u64>) => <u64>\n  | 0 => 1\n  | n => n * factorial(n - 1u64).", "calls": fact, "as_match": false, "has_wild": true}) });
    let fib: Vec<J> = (0..=15u64).map(|n| { let (mut a, mut b) = (0u64, 1u64); for _ in 0..n { let t = a + b; a = b; b = t; } json!({"src": format!("fib({}u64)", n), "expect": a, "args": [n]}) }).collect();
    out.push(Case { id: "recursion;fib".into(), cell: "recursion;fib".into(), input: json!({"mode": "arms", "def": "fib(x<u64>) => <u64>\n  | 0 => 0\n  | 1 => 1\n  | n => fib(n - 1u64) + fib(n - 2u64).", "calls": fib, "as_match": false, "has_wild": true}) });
    let pw: Vec<J> = (0..5u64).flat_map(|x| (0..8u64).map(move |y| json!({"src": format!("power({}u64, {}u64)", x, y), "expect": x.pow(y as u32), "args": [x, y]}))).collect();
    out.push(Case { id: "recursion;power".into(), cell: "recursion;power".into(), input: json!({"mode": "arms", "def": "power(x<u64>, y<u64>) => <u64>\n  | (*, 0) => 1\n  | (x, y) => x * power(x, y - 1u64).", "calls": pw, "as_match": false, "has_wild": true}) });
    fn gcd(a: u64, b: u64) -> u64 { if b == 0 { a } else { gcd(b, a % b) } }
    let g: Vec<J> = (0..=12u64).flat_map(|x| (0..=12u64).map(move |y| json!({"src": format!("gcd({}u64, {}u64)", x, y), "expect": gcd(x, y), "args": [x, y]}))).collect();
    out.push(Case { id: "recursion;gcd".into(), cell: "recursion;gcd".into(), input: json!({"mode": "arms", "def": "gcd(a<u64>, b<u64>) => <u64>\n  | (a, 0) => a\n  | (a, b) => gcd(b, a % b).", "calls": g, "as_match": false, "has_wild": true}) });
    let cd: Vec<J> = [0u64, 1, 2, 100, 5000, deep].iter().map(|n| json!({"src": format!("countdown({}u64)", n), "expect": n, "args": [n]})).collect();
    out.push(Case { id: "recursion;tail-countdown".into(), cell: "recursion;tail-countdown".into(), input: json!({"mode": "arms", "def": "countdown(n<u64>) => <u64>\n  | n => countdown-acc(n, 0u64).\n\ncountdown-acc(n<u64>, acc<u64>) => <u64>\n  | (0u64, acc) => acc\n  | (n, acc) => countdown-acc(n - 1u64, acc + 1u64).", "calls": cd, "as_match": false, "has_wild": true}) });
    // broadcasting a scalar function over matrices
    for (name, lit, shape) in [("row", "[1 2 3]", (1usize, 3usize)), ("col", "[1; 2; 3]", (3, 1)), ("mat", "[1 2 3; 4 5 6]", (2, 3))] {
      out.push(Case { id: format!("broadcast;{}", name), cell: format!("broadcast;{}", name), input: json!({"mode": "broadcast", "def": "sq-plus(x<f64>) => <f64>\n  | * => x * x + 1.", "call": format!("sq-plus({})", lit), "lit": lit, "rows": shape.0, "cols": shape.1}) });
    }
    // the same for non-f64 element kinds (increment): shape and kind kept
    for k in ["u64", "u8", "i64", "f32"] { for (name, els, shape) in [("row", vec![1, 2, 3], (1usize, 3usize)), ("col", vec![1, 2, 3], (3, 1)), ("mat", vec![1, 2, 3, 4, 5, 6], (2, 3)), ("tall", vec![1, 2, 3, 4, 5, 6], (3, 2))] {
      let sp = |n: i64| if k == "u64" || k == "u8" { format!("{}{}", n, k) } else { format!("{}<{}>", n, k) };
      let lit = { let c = shape.1; let rows: Vec<String> = els.chunks(c).map(|r| r.iter().map(|n| sp(*n)).collect::<Vec<_>>().join(" ")).collect(); format!("[{}]", rows.join("; ")) };
      let want = { let c = shape.1; let rows: Vec<String> = els.chunks(c).map(|r| r.iter().map(|n| sp(*n + 1)).collect::<Vec<_>>().join(" ")).collect(); format!("[{}]", rows.join("; ")) };
      out.push(Case { id: format!("broadcast-typed;kind={};{}", k, name), cell: format!("broadcast-typed;{}", name), input: json!({"mode": "broadcast-typed", "def": format!("inc(x<{k}>) => <{k}>\n  | * => x + {one}.", k = k, one = sp(1)), "call": format!("inc({})", lit), "want": want}) });
    } }
    // nested matches: the inner match sees the bindings of the outer arm (and not a global of the same name)
    for as_fn in [false, true] {
      let mut calls = Vec::new();
      for a in 0..3u64 { for b in 0..3u64 {
        let expect = if a == 0 { b } else { a + 10 * b };
        let src = if as_fn { format!("pick({}u64, {}u64)", a, b) } else { format!("r := ({}u64, {}u64)?\n  | (a, b) => a?\n    | 0u64 => b\n    | * => a + 10u64 * b.\n  | * => 999u64.", a, b) };
        calls.push(json!({"src": src, "expect": expect, "args": [a, b], "prelude": "b := 1000u64"}));
      } }
      let def = if as_fn { json!("pick(x<u64>, y<u64>) => <u64>\n  | (a, b) => a?\n    | 0u64 => b\n    | * => a + 10u64 * b..") } else { J::Null };
      out.push(Case { id: format!("nested-match;as_fn={}", as_fn), cell: "nested-match".into(), input: json!({"mode": "arms", "def": def, "calls": calls, "as_match": !as_fn, "has_wild": true}) });
    }
    // tail recursion whose pattern variables are NOT named like the parameters (renamed, swapped)
    let st: Vec<J> = [0u64, 1, 2, 10, 100, 2000].iter().map(|n| json!({"src": format!("sum-to({}<u64>, 0<u64>)", n), "expect": n * (n + 1) / 2, "args": [n]})).collect();
    out.push(Case { id: "recursion;tail-renamed-sum".into(), cell: "recursion;tail-renamed".into(), input: json!({"mode": "arms", "def": "sum-to(n<u64>, acc<u64>) => <u64>\n  ├ (0<u64>, total) => total\n  └ (k, total) => sum-to(k - 1<u64>, total + k).", "calls": st, "as_match": false, "has_wild": true}) });
    let fa: Vec<J> = (0..=15u64).map(|n| { let (mut a, mut b) = (0u64, 1u64); for _ in 0..n { let t = a + b; a = b; b = t; } json!({"src": format!("fib-acc({}<u64>, 0<u64>, 1<u64>)", n), "expect": a, "args": [n]}) }).collect();
    out.push(Case { id: "recursion;tail-swapped-fib".into(), cell: "recursion;tail-renamed".into(), input: json!({"mode": "arms", "def": "fib-acc(n<u64>, a<u64>, b<u64>) => <u64>\n  ├ (0<u64>, x, *) => x\n  └ (n, b, a) => fib-acc(n - 1<u64>, a, a + b).", "calls": fa, "as_match": false, "has_wild": true}) });
    let gr: Vec<J> = (0..=9u64).flat_map(|x| (0..=9u64).map(move |y| json!({"src": format!("gcd2({}<u64>, {}<u64>)", x, y), "expect": gcd(x, y), "args": [x, y]}))).collect();
    out.push(Case { id: "recursion;tail-renamed-gcd".into(), cell: "recursion;tail-renamed".into(), input: json!({"mode": "arms", "def": "gcd2(a<u64>, b<u64>) => <u64>\n  ├ (x, 0<u64>) => x\n  └ (x, y) => gcd2(y, x % y).", "calls": gr, "as_match": false, "has_wild": true}) });
    // stated error classes
    for (name, def, src) in [
      ("arity-few", "two(x<u64>, y<u64>) => <u64>\n  | (x, y) => x + y.", "two(1u64)"),
      ("arity-many", "one(x<u64>) => <u64>\n  | n => n.", "one(1u64, 2u64)"),
      ("arity-many-wildcard-arm", "onew(x<u64>) => <u64>\n  | * => 7u64.", "onew(1u64, 2u64)"),
      ("arity-many-statement-body", "g(x<f64>) = z<f64> :=\n    z := x + 1.", "g(1, 2)"),
      ("arity-few-statement-body", "g2(x<f64>, y<f64>) = z<f64> :=\n    z := x + y.", "g2(1)"),
      ("arity-many-tuple-arm", "two3(x<u64>, y<u64>) => <u64>\n  | (x, y) => x + y\n  | * => 9u64.", "two3(1u64, 2u64, 3u64)"),
      ("arity-many-recursive", "cnt(n<u64>) => <u64>\n  | 0 => 0\n  | * => 99u64.", "cnt(0u64, 0u64)"),
      ("no-matching-arm", "only-zero(x<u64>) => <u64>\n  | 0 => 1.", "only-zero(3u64)"),
      ("no-matching-arm-tuple", "only-diag(x<u64>, y<u64>) => <u64>\n  | (0, 0) => 1\n  | (1, 1) => 2.", "only-diag(0u64, 1u64)"),
      ("match-without-wildcard", "", "r := 2u64?\n  | 1 => 300u64."),
      ("enum-function-foreign-tag-arm", "<color> := :red | :green | :blue\ncode(c<color>) => <u64>\n  | :red => 1u64\n  | :green => 2u64\n  | :teal => 3u64.", "code(:green)"),
      ("enum-function-missing-variant", "<color> := :red | :green | :blue\ncodem(c<color>) => <u64>\n  | :red => 1u64\n  | :green => 2u64.", "codem(:green)"),
      ("enum-match-foreign-tag-arm", "<color> := :red | :green | :blue", "c<color> := :green\nr := c?\n  | :red => 1u64\n  | :green => 2u64\n  | :teal => 3u64."),
      ("enum-match-missing-variant", "<color> := :red<u64> | :green<u64> | :blue", "c<color> := :blue\nr := c?\n  | :red(v) => v\n  | :green(v) => v."),
    ] { out.push(Case { id: format!("error;{}", name), cell: format!("error;{}", name), input: json!({"mode": "error", "def": def, "src": src}) }); }
    out
  }

  fn run(&self, case: &Case, _flavour: &str) -> Outcome {
    match case.input["mode"].as_str().unwrap() {
      "arms" => {
        let mut s = Sess::new();
        if let Some(def) = case.input["def"].as_str() { match s.eval(def) { Ev::Ok(_) => {}, other => return Outcome::violated("definition-rejected", format!("{}\n-> {}", def, other.show())) } }
        let mut evaluated = 0;
        for call in case.input["calls"].as_array().unwrap() {
          let src = call["src"].as_str().unwrap();
          let mut fresh;
          let sess: &mut Sess = if call.get("fresh").is_some() { fresh = Sess::new(); if let Some(p) = call["prelude"].as_str() { let _ = fresh.eval(p); } &mut fresh } else if case.input["as_match"].as_bool().unwrap_or(false) { fresh = Sess::new(); &mut fresh } else { &mut s };
          if call.get("fresh").is_none() { if let Some(p) = call["prelude"].as_str() { let _ = sess.eval(p); } }
          let res = sess.eval(src);
          let ctx = || format!("{}\n{}", case.input["def"].as_str().unwrap_or(""), src);
          match (&res, call["expect"].as_u64()) {
            (Ev::Panic(p), _) => return Outcome::violated("panic-escaped", format!("{}\n{}", ctx(), p)),
            (Ev::Ok(v), Some(want)) => { evaluated += 1; let got = match v { CVal::S(_, Sc::U(x)) => Some(*x as u64), CVal::S(_, Sc::F64(b)) => Some(f64::from_bits(*b) as u64), _ => None }; if got != Some(want) { return Outcome::violated("wrong-arm-or-binding", format!("{}\nreturned {} but the first matching arm yields {}", ctx(), v.show(), want)); } }
            (Ev::Ok(v), None) => return Outcome::violated("value-instead-of-error", format!("{}\nno arm matches but the call returned {}", ctx(), v.show())),
            (_, None) => { evaluated += 1; }
            (other, Some(want)) => return Outcome::violated("error-instead-of-value", format!("{}\nexpected {} but got {}", ctx(), want, other.show())),
          }
        }
        if evaluated > 0 { Outcome::held().num("calls", evaluated as f64) } else { Outcome::trivial() }
      }
      "arraykind" => {
        let k = case.input["kind"].as_str().unwrap();
        let pat = case.input["pat"].as_str().unwrap();
        let form = case.input["form"].as_str().unwrap();
        let v: Vec<i64> = serde_json::from_value(case.input["v"].clone()).unwrap();
        let n = v.len();
        // (pattern, body, expected value when the pattern matches)
        let want: Option<i64> = match pat {
          "tail-first" => if n >= 2 { Some(v[1]) } else { None },
          "prefix2" => if n >= 3 { Some(v[0] * 10 + v[2]) } else { None },
          "ends" => if n >= 2 { Some(v[0] * 10 + v[n - 1]) } else { None },
          "head" => if n >= 1 { Some(v[0] + 1) } else { None },
          "last" => if n >= 1 { Some(v[n - 1] + 1) } else { None },
          _ => if n >= 2 { Some(v[1..].iter().sum::<i64>()) } else { None },
        };
        // ([x | rest] with a one-element vector leaves an empty rest: the arm's body is then not evaluable - skipped)
        let Some(want) = want else { return Outcome::trivial(); };
        let build = |kk: &str| -> (String, CVal) {
          let sc = |x: i64| match kk { "f64" => Sc::f64(x as f64), "f32" => Sc::f32(x as f32), _ => crate::refm::small_val(kk, x) };
          let l = |x: i64| lit(&CVal::S(kk.to_string(), sc(x))).unwrap();
          let arm = match pat {
            "tail-first" => "[x | rest] => rest[1]".to_string(),
            "prefix2" => format!("[a, b | rest] => a * {} + rest[1]", l(10)),
            "ends" => format!("[lo … hi] => lo * {} + hi", l(10)),
            "head" => format!("[h …] => h + {}", l(1)),
            "last" => format!("[… y] => y + {}", l(1)),
            _ => "[x | rest] => stats/sum/column(rest)".to_string(),
          };
          let litv = format!("[{}]", v.iter().map(|x| l(*x)).collect::<Vec<_>>().join(" "));
          let src = match form {
            "function" => format!("fk(xs<[{k}]>) => <{k}>\n  | {arm}\n  | * => {z}.\n\nfk({a})", k = kk, arm = arm, z = l(99), a = litv),
            "function-var" => format!("fk(xs<[{k}]>) => <{k}>\n  | {arm}\n  | * => {z}.\n\nvv := {a}\nfk(vv)", k = kk, arm = arm, z = l(99), a = litv),
            _ => format!("r := {a}?\n  | {arm}\n  | * => {z}.", arm = arm, z = l(99), a = litv),
          };
          (src, CVal::S(kk.to_string(), sc(want)))
        };
        let (src, wantv) = build(k);
        let mut s = Sess::new();
        let res = s.eval(&src);
        let same = |r: &Ev, w: &CVal| match r { Ev::Ok(g) => g == w || (g.is_matrix() && g.elems().len() == 1 && &g.elems()[0] == w), _ => false };
        if same(&res, &wantv) { return Outcome::held().num("calls", 1.0); }
        if let Ev::Panic(p) = &res { return Outcome::violated("panic-escaped", format!("{}\n{}", src, p)); }
        if let Ev::ParseErr(m) = &res { return Outcome::inconclusive("harness-parse", format!("{}: {}", src, m)); }
        // the u64 twin of the same text decides whether the construct as written is supported at all
        let (tsrc, twant) = build("u64");
        let mut t = Sess::new();
        if k == "u64" || same(&t.eval(&tsrc), &twant) {
          Outcome::violated(if res.is_ok() { "wrong-arm-or-binding" } else { "error-instead-of-value" }, format!("{}\nreturned {} expected {}", src, res.show(), wantv.show()))
        } else { Outcome::trivial().tag(format!("construct-unsupported:{}:{}", pat, form)) }
      }
      "broadcast" => {
        let mut s = Sess::new();
        let _ = s.eval(case.input["def"].as_str().unwrap());
        let res = s.eval(case.input["call"].as_str().unwrap());
        let m = s.eval(case.input["lit"].as_str().unwrap());
        match (&res, &m) {
          (Ev::Ok(v), Ev::Ok(src)) => { let want: Vec<CVal> = src.elems().iter().map(|e| match e { CVal::S(_, Sc::F64(b)) => { let x = f64::from_bits(*b); sc_f64(x * x + 1.0) } o => o.clone() }).collect(); if v.shape() != src.shape() || v.elems() != want { Outcome::violated("broadcast-wrong", format!("{} -> {} expected elementwise map of {}", case.input["call"], v.show(), src.show())) } else { Outcome::held() } }
          (other, _) => Outcome::violated("error-instead-of-value", format!("{} -> {}", case.input["call"], other.show())),
        }
      }
      "broadcast-typed" => {
        let mut s = Sess::new();
        let _ = s.eval(case.input["def"].as_str().unwrap());
        let res = s.eval(case.input["call"].as_str().unwrap());
        let want = s.eval(case.input["want"].as_str().unwrap());
        match (&res, &want) {
          // shape and elements are demanded; whether the result is a typed matrix or a matrix of values is not stated
          (Ev::Ok(v), Ev::Ok(w)) => if v.shape() == w.shape() && v.elems() == w.elems() { Outcome::held() } else { Outcome::violated(if v.shape() != w.shape() { "broadcast-shape-differs" } else { "broadcast-wrong" }, format!("{}\n{} -> {} expected {}", case.input["def"], case.input["call"], v.show(), w.show())) },
          (Ev::Panic(p), _) => Outcome::violated("panic-escaped", p.clone()),
          (_, Ev::Ok(_)) => Outcome::trivial().tag("broadcast-unsupported-for-kind"),
          _ => Outcome::inconclusive("harness-literal", case.input["want"].to_string()),
        }
      }
      "error" => {
        let mut s = Sess::new();
        let def = case.input["def"].as_str().unwrap();
        if !def.is_empty() { let _ = s.eval(def); }
        match s.eval(case.input["src"].as_str().unwrap()) { Ev::Ok(v) => Outcome::violated("value-instead-of-error", format!("{}\n{}\n-> {}", def, case.input["src"], v.show())), Ev::Panic(p) => Outcome::violated("panic-escaped", p), _ => Outcome::held() }
      }
      _ => Outcome::inconclusive("bad-mode", String::new()),
    }
  }

  fn on_abort(&self, case: &Case, how: &str) -> Outcome { Outcome::violated(&format!("abort:{}", how), format!("worker died ({}) while evaluating {}", how, case.id)) }
}
