//! C12 Kind annotations convert values faithfully and reshape in column-major order.

use crate::canon::*;
use crate::fw::*;
use crate::refm::*;
use crate::sess::*;
use serde_json::{json, Value as J};

pub struct C12;

/// exact numeric reading of a scalar: Int(sign, magnitude) or Flt(f64 exactly representing it) or Rat
#[derive(Clone, Debug)]
enum Num { Int(Big), Flt(f64), Rat(i64, i64) }

fn num_of(c: &CVal) -> Option<Num> {
  match c { CVal::S(_, s) => match s { Sc::U(_) | Sc::I(_) => Big::from_sc(s).map(Num::Int), Sc::F64(b) => Some(Num::Flt(f64::from_bits(*b))), Sc::F32(b) => Some(Num::Flt(f32::from_bits(*b) as f64)), Sc::R(n, d) => Some(Num::Rat(*n, *d)), _ => None }, _ => None }
}

fn big_to_f64(b: Big) -> f64 { let m = b.mag as f64; if b.neg { -m } else { m } }
fn f64_is_int_in(x: f64, k: &str) -> Option<Big> {
  if !x.is_finite() || x.fract() != 0.0 { return None; }
  let b = if x < 0.0 { if -x >= 3.5e38 { return None; } Big { neg: true, mag: (-x) as u128 } } else { if x >= 3.5e38 { return None; } Big { neg: false, mag: x as u128 } }.norm();
  if big_to_f64(b) != x { return None; }
  if b.fits(k) { Some(b) } else { None }
}

/// Some(expected) iff the value is exactly representable in kind k2
fn representable(v: &Num, k2: &str) -> Option<CVal> {
  if is_int(k2) {
    return match v { Num::Int(b) => if b.fits(k2) { Some(b.to_cval(k2)) } else { None }, Num::Flt(x) => f64_is_int_in(*x, k2).map(|b| b.to_cval(k2)), Num::Rat(n, d) => if *d == 1 { let b = Big { neg: *n < 0, mag: n.unsigned_abs() as u128 }; if b.fits(k2) { Some(b.to_cval(k2)) } else { None } } else { None } };
  }
  match k2 {
    "f64" => match v {
      Num::Int(b) => { let x = big_to_f64(*b); if x.is_finite() && f64_is_int_in(x, "i128").or(f64_is_int_in(x, "u128")).map(|r| r == b.norm()).unwrap_or(false) { Some(sc_f64(x)) } else { None } }
      Num::Flt(x) => Some(sc_f64(*x)),
      Num::Rat(n, d) => if (*d as u64).is_power_of_two() && *d <= (1 << 20) && n.unsigned_abs() < (1u64 << 52) { Some(sc_f64(*n as f64 / *d as f64)) } else { None },
    },
    "f32" => match v {
      Num::Int(b) => { let x = big_to_f64(*b); let y = x as f32; if (y as f64) == x && f64_is_int_in(x, "i128").or(f64_is_int_in(x, "u128")).map(|r| r == b.norm()).unwrap_or(false) { Some(sc_f32(y)) } else { None } }
      Num::Flt(x) => { let y = *x as f32; if x.is_nan() || (y as f64) == *x { Some(sc_f32(y)) } else { None } }
      Num::Rat(n, d) => if (*d as u64).is_power_of_two() && *d <= 1024 && n.unsigned_abs() < (1u64 << 23) { Some(sc_f32(*n as f32 / *d as f32)) } else { None },
    },
    "r64" => match v {
      Num::Int(b) => if b.fits("i64") { rat(if b.neg { -(b.mag as i128) } else { b.mag as i128 }, 1) } else { None },
      Num::Flt(x) => { let y = x * 8.0; if x.is_finite() && y.fract() == 0.0 && y.abs() < 1e12 { rat(y as i128, 8) } else { None } }
      Num::Rat(n, d) => rat(*n as i128, *d as i128),
    },
    "c64" => match representable(v, "f64") { Some(CVal::S(_, Sc::F64(b))) => Some(sc_c(f64::from_bits(b), 0.0)), _ => None },
    _ => None,
  }
}

/// float -> int rule: truncate toward zero, clamp to range. Returns the allowed results (NaN may be 0).
fn float_to_int(x: f64, k2: &str) -> Vec<CVal> {
  if x.is_nan() { return vec![Big { neg: false, mag: 0 }.to_cval(k2)]; }
  let t = x.trunc();
  let max = int_max_u(k2); let min = int_min(k2);
  let b = if t >= max as f64 { Big { neg: false, mag: max } } else if t <= min as f64 { Big { neg: min < 0, mag: min.unsigned_abs() } } else if t < 0.0 { Big { neg: true, mag: (-t) as u128 } } else { Big { neg: false, mag: t as u128 } };
  vec![b.norm().to_cval(k2)]
}

fn kind_values(k: &str, rng: &mut Rng, n: usize) -> Vec<CVal> {
  let mut v: Vec<CVal> = boundary_pool(k).into_iter().map(|s| CVal::S(k.to_string(), s)).collect();
  for _ in 0..n { v.push(CVal::S(k.to_string(), { let b = rng.chance(1, 2); rand_val(k, rng, b) })); }
  if is_float(k) { for x in [3.7, -3.7, 0.999, -0.999, 255.5, 256.0, -129.0, 65535.9, 4294967296.0, 1e19, -1e19, 1e40, 2147483648.0, 0.125, -2.75, 16777216.0] { v.push(if k == "f64" { sc_f64(x) } else { sc_f32(x as f32) }); } }
  if k == "r64" { for (n, d) in [(4, 2), (7, 1), (-3, 1), (1, 4), (255, 1), (256, 1), (-129, 1), (3, 8)] { v.push(rat(n, d).unwrap()); } }
  v
}

fn annot(k2: &str) -> String { k2.to_string() }

impl Prop for C12 {
  fn id(&self) -> &'static str { "C12" }
  fn rule(&self) -> String { "cells = ordered pairs of numeric kinds (13 real sources x 14 targets) x group {representable values must convert exactly, float-to-integer truncates toward zero and clamps, matrix form equals the scalar rule elementwise and keeps the shape}; values from each kind's boundary pool plus random draws; all (r,c)->(r',c') reshapes with up to 16 elements (column-major; unequal counts must fail); string->number must fail; matrix->set keeps exactly the distinct elements. Conversions are written as annotated definitions y<K2> := x on API-bound x. Non-trivial = at least one value in the group had an exact expectation that was compared".into() }
  fn assumptions(&self) -> Vec<String> { vec![
    "integer->integer out of range, integer->float inexact, float->float inexact and rational->float inexact are unconstrained except that the matrix form must agree with the scalar form".into(),
    "NaN -> integer may be 0 or an error".into(),
  ] }
  fn floor(&self, tier: Tier) -> usize { if tier == Tier::Quick { 400 } else { 3000 } }

  fn gen(&self, tier: Tier, seed: u64) -> Vec<Case> {
    let mut out = Vec::new();
    let nrand = if tier == Tier::Quick { 6 } else { 40 };
    for k1 in REAL_KINDS.iter() {
      for k2 in NUM_KINDS.iter() {
        let mut rng = Rng::keyed(seed, &format!("c12{}{}", k1, k2));
        let vals = kind_values(k1, &mut rng, nrand);
        // group A: representable
        let rep: Vec<(CVal, CVal)> = vals.iter().filter_map(|v| num_of(v).and_then(|n| representable(&n, k2)).map(|e| (v.clone(), e))).collect();
        if !rep.is_empty() { for opt in [false, true] { let cell = format!("from={};to={};group=representable{}", k1, k2, if opt { ";form=option" } else { "" }); out.push(Case { id: cell.clone(), cell, input: json!({"mode": "scalar", "to": k2, "opt": opt, "pairs": rep.iter().map(|(v, e)| json!({"v": v, "allowed": [e]})).collect::<Vec<_>>()}) }); } }
        // group B: float -> int
        if is_float(k1) && is_int(k2) {
          let pairs: Vec<J> = vals.iter().map(|v| { let x = match num_of(v) { Some(Num::Flt(x)) => x, _ => 0.0 }; json!({"v": v, "allowed": float_to_int(x, k2), "nan": x.is_nan()}) }).collect();
          let cell = format!("from={};to={};group=float-to-int", k1, k2); out.push(Case { id: cell.clone(), cell, input: json!({"mode": "scalar", "to": k2, "pairs": pairs.clone()}) });
          let cell = format!("from={};to={};group=float-to-int;form=option", k1, k2); out.push(Case { id: cell.clone(), cell, input: json!({"mode": "scalar", "to": k2, "opt": true, "pairs": pairs}) });
        }
        // group C: matrix form == scalar form, shape kept
        for (r, c) in [(1usize, 3usize), (3, 1), (2, 2), (2, 3)] {
          let n = r * c; let mut e = Vec::new();
          for _ in 0..n { e.push(rng.pick(&vals).clone()); }
          let cell = format!("from={};to={};group=matrix;shape={}x{}", k1, k2, r, c);
          out.push(Case { id: cell.clone(), cell: cell.clone(), input: json!({"mode": "matrix", "to": k2, "m": CVal::M(k1.to_string(), r, c, e.clone())}) });
          // the same conversion with the annotation written without a shape (<[k]>), which keeps the shape as well
          let cell2 = format!("{};form=shapeless", cell);
          out.push(Case { id: cell2.clone(), cell: cell2, input: json!({"mode": "matrix", "to": k2, "noshape": true, "m": CVal::M(k1.to_string(), r, c, e)}) });
        }
      }
      // string -> number must fail ; number -> string is unconstrained
      let cell = format!("from=string;to={};group=no-conversion", k1); out.push(Case { id: cell.clone(), cell, input: json!({"mode": "noconv", "to": k1}) });
    }
    // reshape
    let mut shapes = Vec::new();
    for r in 1..=16usize { for c in 1..=16usize { if r * c <= 16 { shapes.push((r, c)); } } }
    let mut rng = Rng::keyed(seed, "c12reshape");
    for (r, c) in shapes.iter() { for (r2, c2) in shapes.iter() {
      let equal = r * c == r2 * c2;
      let take = if tier == Tier::Thorough { true } else if equal { rng.chance(1, 2) } else { rng.chance(1, 12) };
      if !take || (r, c) == (r2, c2) { continue; }
      let k = *rng.pick(&["f64", "f64", "u8", "i64", "string", "bool", "r64"]);
      let cell = format!("reshape;kind={};from={}x{};to={}x{};{}", k, r, c, r2, c2, if equal { "equal" } else { "unequal" });
      out.push(Case { id: cell.clone(), cell: cell.clone(), input: json!({"mode": "reshape", "kind": k, "m": super::c03::index_matrix(k, *r, *c, 0), "r2": r2, "c2": c2, "equal": equal}) });
      // the same reshape through the wildcard element kind <[*]:r,c>
      if rng.chance(1, 3) { let wc = format!("{};form=wildcard", cell); out.push(Case { id: wc.clone(), cell: wc, input: json!({"mode": "reshape", "kind": k, "wild": true, "m": super::c03::index_matrix(k, *r, *c, 0), "r2": r2, "c2": c2, "equal": equal}) }); }
    } }
    // matrix -> set of ANOTHER kind: the elements are the scalar conversions of the distinct elements (integer kinds, boundary values)
    for k1 in ["u8", "u16", "u32", "u64", "i8", "i16", "i32", "i64", "f64", "f32"] { for k2 in ["u8", "u16", "u32", "u64", "i8", "i16", "i32", "i64", "f64"] {
      if k1 == k2 { continue; }
      let mut rng = Rng::keyed(seed, &format!("c12setconv{}{}", k1, k2));
      let vals: Vec<CVal> = if is_float(k1) { [1.5f64, 2.5, 2.9, -3.7, 0.0, 7.0].iter().filter(|x| **x >= 0.0 || !is_unsigned(k2)).map(|x| if k1 == "f32" { sc_f32(*x as f32) } else { sc_f64(*x) }).collect() } else { kind_values(k1, &mut rng, 4).into_iter().filter(|v| num_of(v).and_then(|n| representable(&n, k2)).is_some()).collect() };
      if vals.len() < 2 { continue; }
      let e: Vec<CVal> = (0..6).map(|i| vals[i % vals.len()].clone()).collect();
      let cell = format!("toset-convert;from={};to={}", k1, k2);
      out.push(Case { id: cell.clone(), cell, input: json!({"mode": "toset-convert", "to": k2, "m": CVal::M(k1.to_string(), 1, 6, e)}) });
    } }
    // a SCALAR annotated with a matrix kind and shape is spread over the shape: every element is the scalar conversion
    for (vi, (k1, lit1)) in [("u8", "5<u8>"), ("f64", "300.7"), ("f64", "-3.7"), ("f64", "2.5"), ("i64", "-7<i64>"), ("f32", "1.5<f32>"), ("u16", "40000u16")].iter().enumerate() {
      for k2 in ["f64", "u8", "i8", "i64", "f32", "u16", "u64"] { for (r, c) in [(3usize, 2usize), (1, 3), (2, 1)] { for form in ["variable", "literal"] {
        let cell = format!("spread;from={};to={};shape={}x{};form={}", k1, k2, r, c, form);
        out.push(Case { id: format!("{};v={}", cell, vi), cell, input: json!({"mode": "spread", "lit": lit1, "to": k2, "r": r, "c": c, "form": form}) });
      } } }
    }
    // matrix -> set
    for k in ["f64", "u8", "i64", "string", "bool", "r64", "u64", "f32"] {
      for i in 0..(if tier == Tier::Quick { 4 } else { 30 }) {
        let mut rng = Rng::keyed(seed, &format!("c12set{}{}", k, i));
        let (r, c) = *rng.pick(&[(1usize, 4usize), (4, 1), (2, 3), (1, 7), (3, 3)]);
        let pool: Vec<CVal> = (0..3 + rng.below(3) as i64).map(|j| if k == "bool" { sc_b(j % 2 == 0) } else { CVal::S(k.to_string(), small_val(k, j * 2 + 1)) }).collect();
        let e: Vec<CVal> = (0..r * c).map(|_| rng.pick(&pool).clone()).collect();
        let cell = format!("toset;kind={};shape={}x{}", k, r, c);
        out.push(Case { id: format!("{};n={}", cell, i), cell, input: json!({"mode": "toset", "kind": k, "m": CVal::M(k.to_string(), r, c, e)}) });
      }
    }
    out
  }

  fn run(&self, case: &Case, _flavour: &str) -> Outcome {
    let mode = case.input["mode"].as_str().unwrap();
    match mode {
      "scalar" => {
        let k2 = case.input["to"].as_str().unwrap();
        let mut compared = 0;
        let mut first_err: Option<Outcome> = None;
        let mut errs = 0; let mut total = 0;
        for p in case.input["pairs"].as_array().unwrap() {
          total += 1;
          let v: CVal = serde_json::from_value(p["v"].clone()).unwrap();
          let allowed: Vec<CVal> = serde_json::from_value(p["allowed"].clone()).unwrap();
          let nan = p.get("nan").and_then(|x| x.as_bool()).unwrap_or(false);
          let mut s = Sess::new(); s.bind("x", &v, false);
          let opt = case.input.get("opt").and_then(|o| o.as_bool()).unwrap_or(false);
          let res = s.eval(&format!("y<{}{}> := x", annot(k2), if opt { "?" } else { "" }));
          match res {
            Ev::Ok(got) => { compared += 1; if !allowed.contains(&got) { let class = if case.cell.contains("float-to-int") { "float-to-int-not-trunc-clamp" } else { "representable-value-changed" }; return Outcome::violated(class, format!("y<{}> := x with x = {} gave {} expected {}", k2, v.show(), got.show(), allowed[0].show())); }
              // the same conversion written as an annotated REFERENCE, at top level and inside a function arm, a match arm and a
              // comprehension (x is a global there, not a pattern variable): a value it yields must be the converted one
              if !opt && total <= 3 {
                let k1 = v.kind_str();
                let ctxs: Vec<(&str, String, String)> = vec![
                  ("reference", String::new(), format!("y2 := x<{}>", annot(k2))),
                  ("function-arm", format!("cv(a<{}>) => <{}>\n  | n => a<{}>.", annot(&k1), annot(k2), annot(k2)), "cv(x)".to_string()),
                  ("function-arm-global", format!("cg(a<u64>) => <{}>\n  | n => x<{}>.", annot(k2), annot(k2)), "cg(1u64)".to_string()),
                  ("match-arm", String::new(), format!("y3 := 1u64?\n  | 7 => x<{}>\n  | n => x<{}>\n  | * => x<{}>.", annot(k2), annot(k2), annot(k2))),
                  ("comprehension", String::new(), format!("y4 := [x<{}> | i <- [1 2]]", annot(k2))),
                ];
                for (cname, def, src) in ctxs.iter() {
                  if !def.is_empty() { if !s.eval(def).is_ok() { continue; } }
                  if let Ev::Ok(g) = s.eval(src) {
                    let ok = if *cname == "comprehension" { g.elems().iter().all(|e| allowed.contains(e)) } else { allowed.contains(&g) };
                    if !ok { return Outcome::violated(&format!("context-conversion-differs:{}", cname), format!("x = {}: `{}{}{}` gave {} but y<{}> := x gives {}", v.show(), def, if def.is_empty() { "" } else { " ; " }, src, g.show(), k2, got.show())); }
                  }
                }
              }
            }
            Ev::Err(kind, msg) => { errs += 1; if nan { continue; } if first_err.is_none() { first_err = Some(Outcome::violated("error-instead-of-value", format!("y<{}> := x with x = {} failed: {} {}", k2, v.show(), kind, msg.chars().take(100).collect::<String>()))); } }
            Ev::Panic(m) => return Outcome::violated("panic-escaped", m),
            Ev::ParseErr(m) => return Outcome::inconclusive("harness-parse", m),
          }
        }
        // a pair of kinds with no conversion at all is an error for every value: allowed by the property
        if errs == total {
          // ... unless the target can represent EVERY value of the source kind (a true widening: the property's first clause presupposes it)
          let k1 = case.cell.split(';').next().unwrap_or("").trim_start_matches("from=").to_string();
          let widening = |a: &str, b: &str| -> bool {
            if is_int(a) && is_int(b) { let (ab, bb) = (bits(a), bits(b)); return if is_unsigned(a) == is_unsigned(b) { bb > ab } else { is_unsigned(a) && bb > ab }; }
            if is_int(a) && b == "f64" { return bits(a) <= 32; }
            if is_int(a) && b == "f32" { return bits(a) <= 16; }
            a == "f32" && b == "f64"
          };
          if widening(&k1, k2) && case.cell.contains("group=representable") { return first_err.map(|mut o| { o.class = "widening-conversion-missing".into(); o }).unwrap_or_else(|| Outcome::violated("widening-conversion-missing", case.cell.clone())); }
          return Outcome::trivial().tag(format!("no-conversion:{}", case.cell.split(";group").next().unwrap_or("")));
        }
        if let Some(o) = first_err { return o; }
        if compared > 0 { Outcome::held().num("values", compared as f64) } else { Outcome::trivial() }
      }
      "matrix" => {
        let k2 = case.input["to"].as_str().unwrap();
        let m: CVal = serde_json::from_value(case.input["m"].clone()).unwrap();
        let (r, c) = m.shape();
        let mut s = Sess::new(); s.bind("m", &m, false);
        let noshape = case.input.get("noshape").is_some();
        let res = if noshape { s.eval(&format!("n<[{}]> := m", annot(k2))) } else { s.eval(&format!("n<[{}]:{},{}> := m", annot(k2), r, c)) };
        let mut twins = Vec::new();
        for e in m.elems() { let mut t = Sess::new(); t.bind("x", &e, false); twins.push(t.eval(&format!("y<{}> := x", annot(k2)))); }
        let all_ok = twins.iter().all(|t| t.is_ok());
        match res {
          Ev::Ok(got) => {
            if got.shape() != (r, c) || !got.is_matrix() { return Outcome::violated("shape-lost", format!("n<[{}]:{},{}> := {} gave {}", k2, r, c, m.show(), got.show())); }
            let ge = got.elems();
            for (i, t) in twins.iter().enumerate() { if let Ev::Ok(tv) = t { if &ge[i] != tv { return Outcome::violated("matrix-differs-from-scalar", format!("element {} of n<[{}]:{},{}> := {} is {} but the scalar conversion of {} gives {}", i + 1, k2, r, c, m.show(), ge[i].show(), m.elems()[i].show(), tv.show())); } } }
            if all_ok { Outcome::held() } else { Outcome::trivial() }
          }
          Ev::Err(kind, msg) => if all_ok { Outcome::violated("matrix-form-rejected", format!("every element of {} converts to {} as a scalar but the matrix conversion failed: {} {}", m.show(), k2, kind, msg.chars().take(100).collect::<String>())) } else { Outcome::trivial().tag("scalar-conversion-undefined") },
          Ev::Panic(p) => Outcome::violated("panic-escaped", p),
          Ev::ParseErr(p) => Outcome::inconclusive("harness-parse", p),
        }
      }
      "noconv" => {
        let k2 = case.input["to"].as_str().unwrap();
        let mut s = Sess::new(); s.bind("x", &sc_s("abc"), false);
        match s.eval(&format!("y<{}> := x", k2)) { Ev::Ok(v) => Outcome::violated("value-instead-of-error", format!("y<{}> := \"abc\" gave {}", k2, v.show())), Ev::Panic(p) => Outcome::violated("panic-escaped", p), _ => Outcome::held() }
      }
      "reshape" => {
        let k = case.input["kind"].as_str().unwrap();
        let m: CVal = serde_json::from_value(case.input["m"].clone()).unwrap();
        let (r2, c2) = (case.input["r2"].as_u64().unwrap() as usize, case.input["c2"].as_u64().unwrap() as usize);
        let equal = case.input["equal"].as_bool().unwrap();
        let mut s = Sess::new(); s.bind("m", &m, false);
        let before = s.snapshot();
        let wild = case.input.get("wild").and_then(|w| w.as_bool()).unwrap_or(false);
        let res = s.eval(&format!("n<[{}]:{},{}> := m", if wild { "*" } else { k }, r2, c2));
        match res {
          Ev::Ok(got) => {
            if !equal { return Outcome::violated("value-instead-of-error", format!("reshaping {} to {}x{} gave {}", m.show(), r2, c2, got.show())); }
            let want = CVal::M(k.to_string(), r2, c2, m.elems());
            if got != want { return Outcome::violated("reshape-not-column-major", format!("reshaping {} to {}x{} gave {} expected {}", m.show(), r2, c2, got.show(), want.show())); }
            if s.get("m") != Some(m.clone()) { return Outcome::violated("source-modified", format!("reshape changed its source {}", m.show())); }
            Outcome::held()
          }
          Ev::Err(kind, msg) => if equal { Outcome::violated("error-instead-of-value", format!("reshaping {} to {}x{} failed: {} {}", m.show(), r2, c2, kind, msg.chars().take(80).collect::<String>())) } else { if s.snapshot() != before { Outcome::violated("changed-after-error", "failed reshape changed symbols".into()) } else { Outcome::held() } },
          Ev::Panic(p) => Outcome::violated("panic-escaped", p),
          Ev::ParseErr(p) => Outcome::inconclusive("harness-parse", p),
        }
      }
      "spread" => {
        let (lit1, k2, r, c, form) = (case.input["lit"].as_str().unwrap(), case.input["to"].as_str().unwrap(), case.input["r"].as_u64().unwrap() as usize, case.input["c"].as_u64().unwrap() as usize, case.input["form"].as_str().unwrap());
        let mut t = Sess::new();
        let twin = match t.eval(&format!("x := {}\ny<{}> := x", lit1, annot(k2))) { Ev::Ok(v) => v, _ => return Outcome::trivial().tag("scalar-conversion-unsupported") };
        let mut s = Sess::new();
        let src = if form == "variable" { format!("x := {}\ny<[{}]:{},{}> := x", lit1, annot(k2), r, c) } else { format!("y<[{}]:{},{}> := {}", annot(k2), r, c, lit1) };
        match s.eval(&src) {
          Ev::Ok(got) => {
            if !got.is_matrix() || got.shape() != (r, c) { return Outcome::violated("spread-shape-differs", format!("{} gave {}", src.replace('\n', " ; "), got.show())); }
            if got.elems().iter().any(|e| *e != twin) { return Outcome::violated("spread-differs-from-scalar", format!("{} gave {} but the scalar conversion is {}", src.replace('\n', " ; "), got.show(), twin.show())); }
            Outcome::held()
          }
          Ev::Panic(p) => Outcome::violated("panic-escaped", p),
          Ev::ParseErr(p) => Outcome::inconclusive("harness-parse", p),
          Ev::Err(..) => Outcome::trivial().tag("spread-unsupported"),
        }
      }
      "toset-convert" => {
        let k2 = case.input["to"].as_str().unwrap();
        let m: CVal = serde_json::from_value(case.input["m"].clone()).unwrap();
        let mut want: Vec<CVal> = Vec::new();
        for e in m.elems() { let mut t = Sess::new(); t.bind("x", &e, false); match t.eval(&format!("y<{}> := x", annot(k2))) { Ev::Ok(v) => want.push(v), _ => return Outcome::trivial().tag("scalar-conversion-unsupported") } }
        want.sort(); want.dedup();
        let mut s = Sess::new(); s.bind("m", &m, false);
        match s.eval(&format!("u<{{{}}}> := m", annot(k2))) {
          Ev::Ok(CVal::Set(_, n, e)) => { if e != want { return Outcome::violated("set-differs-from-scalar-conversions", format!("u<{{{}}}> := {} gave {{{}}} but the scalar conversions of its elements are {{{}}}", k2, m.show(), e.iter().map(|x| x.show()).collect::<Vec<_>>().join(","), want.iter().map(|x| x.show()).collect::<Vec<_>>().join(","))); } if n != want.len() { return Outcome::violated("set-size-wrong", format!("declared size {} but {} elements", n, want.len())); } Outcome::held() }
          Ev::Ok(o) => Outcome::violated("not-a-set", format!("u<{{{}}}> := {} gave {}", k2, m.show(), o.show())),
          // every element converts on its own and a matrix converts "every element by the same rule": a rejected set conversion is then
          // a conversion that exists for scalars but not for this container
          // (only for the conversions the property promises outright: float to integer, and true widenings; other pairs may have no conversion)
          Ev::Err(k, msg) => { let k1 = m.elem_kind(); let promised = (is_float(&k1) && is_int(k2)) || (is_int(&k1) && is_int(k2) && bits(k2) > bits(&k1) && (is_unsigned(&k1) || !is_unsigned(k2))) || (is_int(&k1) && k2 == "f64" && bits(&k1) <= 32);
            if promised { Outcome::violated("set-conversion-rejected", format!("u<{{{}}}> := {} failed ({} {}) although every element converts as a scalar", k2, m.show(), k, msg.chars().take(80).collect::<String>())) } else { Outcome::trivial().tag("set-conversion-unsupported") } }
          Ev::Panic(p) => Outcome::violated("panic-escaped", p),
          Ev::ParseErr(p) => Outcome::inconclusive("harness-parse", p),
        }
      }
      "toset" => {
        let k = case.input["kind"].as_str().unwrap();
        let m: CVal = serde_json::from_value(case.input["m"].clone()).unwrap();
        let mut s = Sess::new(); s.bind("m", &m, false);
        match s.eval(&format!("u<{{{}}}> := m", k)) {
          Ev::Ok(CVal::Set(sk, n, e)) => {
            let mut want = m.elems(); want.sort(); want.dedup();
            if e != want { return Outcome::violated("set-elements-wrong", format!("u<{{{}}}> := {} gave {{{}}} expected {{{}}}", k, m.show(), e.iter().map(|x| x.show()).collect::<Vec<_>>().join(","), want.iter().map(|x| x.show()).collect::<Vec<_>>().join(","))); }
            if n != want.len() { return Outcome::violated("set-size-wrong", format!("declared size {} but {} elements", n, want.len())); }
            Outcome::held()
          }
          Ev::Ok(o) => Outcome::violated("not-a-set", format!("u<{{{}}}> := {} gave {}", k, m.show(), o.show())),
          Ev::Err(kind, msg) => Outcome::violated("error-instead-of-value", format!("u<{{{}}}> := {} failed: {} {}", k, m.show(), kind, msg.chars().take(80).collect::<String>())),
          Ev::Panic(p) => Outcome::violated("panic-escaped", p),
          Ev::ParseErr(p) => Outcome::inconclusive("harness-parse", p),
        }
      }
      _ => Outcome::inconclusive("bad-mode", mode.to_string()),
    }
  }
}
