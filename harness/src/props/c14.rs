//! C14 Sets hold distinct elements of one kind and obey set algebra.

use crate::canon::*;
use crate::fw::*;
use crate::sess::*;
use serde_json::{json, Value as J};
use std::collections::{BTreeMap, BTreeSet};

pub struct C14;

/// universe: element kind -> list of (spelling, id of the mathematical element it denotes)
fn universe(k: &str) -> Vec<(&'static str, usize)> {
  match k {
    "f64" => vec![("0", 0), ("1", 1), ("2", 2), ("3.5", 3), ("-1", 4), ("1.0", 1), ("2.0", 2)],
    "f64z" => vec![("0", 0), ("1", 1), ("2", 2), ("3.5", 3), ("-1", 4), ("-0", 0), ("1.0", 1)],
    "u8" => vec![("0u8", 0), ("1u8", 1), ("2u8", 2), ("7u8", 3), ("255u8", 4)],
    "i64" => vec![("0<i64>", 0), ("1<i64>", 1), ("-2<i64>", 2), ("7<i64>", 3), ("-9<i64>", 4)],
    "r64" => vec![("1/2", 0), ("1/3", 1), ("3/4", 2), ("5/1", 3), ("-2/3", 4), ("2/4", 0), ("6/8", 2)],
    "u16" => vec![("0u16", 0), ("1u16", 1), ("2u16", 2), ("7u16", 3), ("200u16", 4)],
    "u32" => vec![("0u32", 0), ("1u32", 1), ("2u32", 2), ("7u32", 3), ("200u32", 4)],
    "u64" => vec![("0u64", 0), ("1u64", 1), ("2u64", 2), ("7u64", 3), ("200u64", 4)],
    "u128" => vec![("0u128", 0), ("1u128", 1), ("2u128", 2), ("7u128", 3), ("200u128", 4)],
    "i8" => vec![("0<i8>", 0), ("1<i8>", 1), ("-2<i8>", 2), ("7<i8>", 3), ("-9<i8>", 4)],
    "i16" => vec![("0<i16>", 0), ("1<i16>", 1), ("-2<i16>", 2), ("7<i16>", 3), ("-9<i16>", 4)],
    "i32" => vec![("0<i32>", 0), ("1<i32>", 1), ("-2<i32>", 2), ("7<i32>", 3), ("-9<i32>", 4)],
    "i128" => vec![("0<i128>", 0), ("1<i128>", 1), ("-2<i128>", 2), ("7<i128>", 3), ("-9<i128>", 4)],
    "f32" => vec![("0<f32>", 0), ("1<f32>", 1), ("2.5<f32>", 2), ("-1<f32>", 3), ("0.5<f32>", 4)],
    "c64" => vec![("1+2i", 0), ("2+1i", 1), ("1+1i", 2), ("0+1i", 3), ("3+0i", 4)],
    "string" => vec![("\"a\"", 0), ("\"b\"", 1), ("\"ab\"", 2), ("\"\"", 3), ("\"é\"", 4)],
    "bool" => vec![("true", 0), ("false", 1)],
    "tuple" => vec![("(1,2)", 0), ("(2,1)", 1), ("(1,1)", 2), ("(2,2)", 3), ("(0,5)", 4)],
    "set" => vec![("{1,2}", 0), ("{3,4}", 1), ("{1,3}", 2), ("{2,4}", 3), ("{5,6}", 4)],
    "setperm" => vec![("{1,2}", 0), ("{3,4}", 1), ("{1,3}", 2), ("{2,4}", 3), ("{5,6}", 4), ("{2,1}", 0), ("{3,1}", 2)],
    _ => vec![],
  }
}
const KINDS: [&str; 10] = ["f64", "f64z", "u8", "i64", "r64", "string", "bool", "tuple", "set", "setperm"];
const BINOPS: [&str; 4] = ["∪", "∩", "∖", "Δ"];
/// the two proper relations have a second documented spelling each (the alias glyphs of the grammar)
const RELS: [&str; 6] = ["⊆", "⊇", "⊊", "⊋", "⊂", "⊃"];

/// normalised element identity: -0.0 -> 0.0, sets -> their normalised element lists
fn norm(c: &CVal) -> CVal {
  match c {
    CVal::S(k, Sc::F64(b)) if f64::from_bits(*b) == 0.0 => CVal::S(k.clone(), Sc::F64(0)),
    CVal::Set(_, _, e) => { let mut v: Vec<CVal> = e.iter().map(norm).collect(); v.sort(); v.dedup(); CVal::Set(String::new(), 0, v) }
    CVal::Tuple(e) => CVal::Tuple(e.iter().map(norm).collect()),
    o => o.clone(),
  }
}

/// structural invariants of one set value (recursively): distinct elements, one kind, declared size
fn invariants(c: &CVal) -> Result<(), (String, String)> {
  if let CVal::Set(k, n, e) = c {
    let keys: Vec<CVal> = e.iter().map(norm).collect();
    let distinct: BTreeSet<&CVal> = keys.iter().collect();
    if distinct.len() != keys.len() { return Err(("duplicate-elements".into(), format!("set {} contains equal elements", c.show()))); }
    let kinds: BTreeSet<String> = e.iter().map(|x| match x { CVal::Set(..) => "set".to_string(), CVal::Tuple(t) => format!("tuple{}", t.len()), o => o.kind_str() }).collect();
    if kinds.len() > 1 { return Err(("mixed-kinds".into(), format!("set {} has elements of kinds {:?}", c.show(), kinds))); }
    if *n != e.len() { return Err(("size-mismatch".into(), format!("set {} reports size {} but has {} elements", c.show(), n, e.len()))); }
    // the declared element kind is the kind of the (scalar) elements
    if let Some(CVal::S(ek, _)) = e.first() { if k != ek { return Err(("declared-kind-differs".into(), format!("set {} declares element kind {} but holds {} elements", c.show(), k, ek))); } }
    for x in e { invariants(x)?; }
  }
  Ok(())
}

fn lit(k: &str, order: &[usize]) -> String {
  let u = universe(k);
  format!("{{{}}}", order.iter().map(|i| u[*i].0).collect::<Vec<_>>().join(", "))
}
fn ids(k: &str, order: &[usize]) -> BTreeSet<usize> { let u = universe(k); order.iter().map(|i| u[*i].1).collect() }

fn rand_subset(k: &str, rng: &mut Rng, max: usize) -> Vec<usize> {
  let u = universe(k);
  let n = rng.below((max.min(u.len()) + 1) as u64) as usize;
  let mut idx: Vec<usize> = (0..u.len()).collect(); rng.shuffle(&mut idx); idx.truncate(n);
  idx
}

impl Prop for C14 {
  fn id(&self) -> &'static str { "C14" }
  fn rule(&self) -> String { "universes of 5 mathematical elements per element kind (f64 with 0/-0 and 1/1.0, u8, i64, rationals with unreduced spellings, strings, bools, 2-tuples, nested sets written in different orders); pairs of subsets of up to 4-6 spellings in permuted insertion orders x operators {union, intersection, difference, symmetric difference, subset, superset, strict subset, strict superset, membership, non-membership}; construction by literal, by comprehension (1-2 generators, 0-2 filters), and by feeding operation results back as operands. Every set value observed is checked for distinct elements, a single element kind and size = cardinality; results are compared with mathematical sets of normalised values. Non-trivial = both operands non-empty or the construction produced a set".into() }
  fn assumptions(&self) -> Vec<String> { vec!["element equality is the language's ==: 0 and -0 are one element, 2/4 and 1/2 are one element, {1,2} and {2,1} are one element".into(), "an empty operand may be written {} (kind _) ; results involving it are compared as sets of elements only".into()] }
  fn floor(&self, tier: Tier) -> usize { if tier == Tier::Quick { 1500 } else { 15000 } }

  fn gen(&self, tier: Tier, seed: u64) -> Vec<Case> {
    let mut out = Vec::new();
    let npairs = if tier == Tier::Quick { 40 } else { 500 };
    // the other element kinds (set kernels and the element hash have one arm per kind): all of them in the thorough tier, three
    // per seed in the quick tier, with fewer operand pairs
    const MORE_KINDS: [&str; 10] = ["u16", "u32", "u64", "u128", "i8", "i16", "i32", "i128", "f32", "c64"];
    let more: Vec<&str> = if tier == Tier::Quick { (0..3).map(|j| MORE_KINDS[(seed as usize * 3 + j) % MORE_KINDS.len()]).collect() } else { MORE_KINDS.to_vec() };
    let kinds: Vec<(&str, usize)> = KINDS.iter().map(|k| (*k, npairs)).chain(more.into_iter().map(|k| (k, if tier == Tier::Quick { 8 } else { 80 }))).collect();
    for (k, npairs) in kinds.iter() {
      let npairs = *npairs;
      for i in 0..npairs {
        let mut rng = Rng::keyed(seed, &format!("c14{}{}", k, i));
        let a = rand_subset(k, &mut rng, 6); let b = rand_subset(k, &mut rng, 6);
        for op in BINOPS.iter().chain(RELS.iter()) {
          // operand forms: each operand is written as a variable (v) or inline as a literal (l); all four combinations per (kind, op)
          let forms = ["vv", "vl", "lv", "ll"][i % 4];
          let cell = format!("kind={};op={};a={};b={};forms={}", k, op, if a.is_empty() { "empty" } else { "nonempty" }, if b.is_empty() { "empty" } else { "nonempty" }, forms);
          out.push(Case { id: format!("{};n={}", cell, i), cell, input: json!({"mode": "binop", "kind": k, "a": a, "b": b, "op": op, "forms": forms}) });
        }
        // the same set written in another order on the other side: relations and operators must not depend on insertion order
        if a.len() >= 2 { let mut rot = a.clone(); rot.rotate_left(1 + i % (a.len() - 1).max(1)); if i % 2 == 0 { rot.reverse(); }
          for op in BINOPS.iter().chain(RELS.iter()) {
            let forms = ["vv", "ll", "vl", "lv"][i % 4];
            let cell = format!("kind={};op={};a=nonempty;b=permutation-of-a;forms={}", k, op, forms);
            out.push(Case { id: format!("{};n={}", cell, i), cell, input: json!({"mode": "binop", "kind": k, "a": a, "b": rot, "op": op, "forms": forms}) });
          }
        }
        // membership of every universe element
        let forms = ["lv", "vv", "ll", "vl"][i % 4];
        let cell = format!("kind={};op=member;a={};forms={}", k, if a.is_empty() { "empty" } else { "nonempty" }, forms);
        out.push(Case { id: format!("{};n={}", cell, i), cell, input: json!({"mode": "member", "kind": k, "a": a, "forms": forms}) });
        // literal construction in every rotation of the insertion order
        let cell = format!("kind={};op=literal", k);
        out.push(Case { id: format!("{};n={}", cell, i), cell, input: json!({"mode": "literal", "kind": k, "a": a}) });
        let cell = format!("kind={};op=nested-literal", k);
        out.push(Case { id: format!("{};n={}", cell, i), cell, input: json!({"mode": "nested", "kind": k, "a": a}) });
        // chained: (a op b) op2 c
        let c = rand_subset(k, &mut rng, 4);
        let op1 = *rng.pick(&BINOPS); let op2 = *rng.pick(&BINOPS);
        let forms = ["vvv", "lvv", "vlv", "vvl", "llv", "lll"][i % 6];
        let cell = format!("kind={};op=chain;forms={}", k, forms);
        out.push(Case { id: format!("{};n={}", cell, i), cell, input: json!({"mode": "chain", "kind": k, "a": a, "b": b, "c": c, "op1": op1, "op2": op2, "forms": forms}) });
      }
    }
    // sets built by converting a matrix with repeated entries (u<{kind}> := m): distinct elements, reported size
    for k in ["f64", "u8", "i64", "r64", "string", "bool"] {
      for i in 0..(if tier == Tier::Quick { 10 } else { 100 }) {
        let mut rng = Rng::keyed(seed, &format!("c14conv{}{}", k, i));
        let u = universe(k); let n = 2 + rng.below(6) as usize;
        let elems: Vec<usize> = (0..n).map(|_| rng.below(u.len() as u64) as usize).collect();
        let shape = ["row", "col", "mat"][i % 3];
        let cell = format!("kind={};op=convert;shape={}", k, shape);
        out.push(Case { id: format!("{};n={}", cell, i), cell, input: json!({"mode": "convert", "kind": k, "elems": elems, "shape": shape}) });
      }
    }
    // literals whose elements have DIFFERENT kinds must be rejected (scalar kinds, tuples of other inner kinds or arity, sets
    // of other element kinds, records of other field kinds)
    let families: [(&str, [&str; 3]); 8] = [("f64", ["1", "2", "3.5"]), ("u8", ["1u8", "2u8", "7u8"]), ("string", ["\"a\"", "\"b\"", "\"c\""]), ("tuple-ff", ["(1,2)", "(2,1)", "(3,3)"]), ("tuple-fs", ["(1,\"a\")", "(2,\"b\")", "(3,\"c\")"]), ("tuple-fff", ["(1,2,3)", "(2,1,0)", "(3,3,3)"]), ("set-f", ["{1,2}", "{3,4}", "{5,6}"]), ("set-s", ["{\"a\",\"b\"}", "{\"c\",\"d\"}", "{\"e\",\"f\"}"])];
    for (i, (fa, ea)) in families.iter().enumerate() { for (j, (fb, eb)) in families.iter().enumerate() {
      if i == j { continue; }
      for (v, lit) in [format!("{{{}, {}}}", ea[0], eb[0]), format!("{{{}, {}, {}}}", ea[0], ea[1], eb[1]), format!("{{{}, {}, {}}}", eb[2], ea[2], ea[0])].iter().enumerate() {
        let cell = format!("mixed-literal;first={};second={}", fa, fb);
        out.push(Case { id: format!("{};v={}", cell, v), cell, input: json!({"mode": "mixed", "lit": lit}) });
      }
    } }
    // comprehensions over numeric sets
    let nc = if tier == Tier::Quick { 60 } else { 600 };
    for i in 0..nc {
      let mut rng = Rng::keyed(seed, &format!("c14comp{}", i));
      let a: Vec<i64> = { let mut v: Vec<i64> = (0..6).collect(); rng.shuffle(&mut v); v.truncate(1 + rng.below(5) as usize); v };
      let b: Vec<i64> = { let mut v: Vec<i64> = (1..6).collect(); rng.shuffle(&mut v); v.truncate(1 + rng.below(4) as usize); v };
      let shape = rng.below(7);
      let cell = format!("comprehension;shape={}", shape);
      out.push(Case { id: format!("{};n={}", cell, i), cell, input: json!({"mode": "comp", "a": a, "b": b, "shape": shape}) });
    }
    out
  }

  /// Miri stage: the kernels this property's constructs dispatch to, driven directly (crate /verif/miri) under the undefined-behaviour interpreter
  fn post_stage(&self, tier: Tier, seed: u64, _self_exe: &str) -> Vec<(Case, Outcome)> { crate::fw::miri_stage("C14", tier, seed, if tier == Tier::Quick { 1 } else { 1 }) }

  fn run(&self, case: &Case, _flavour: &str) -> Outcome {
    if case.cell.starts_with("stage=miri") { return crate::fw::miri_run_one(case); }
    let mode = case.input["mode"].as_str().unwrap();
    let getv = |name: &str| -> Vec<usize> { serde_json::from_value(case.input[name].clone()).unwrap_or_default() };
    let mut s = Sess::new();
    let check = |ev: &Ev, what: &str| -> Result<CVal, Outcome> {
      match ev {
        Ev::Ok(v) => { if let Err((c, d)) = invariants(v) { return Err(Outcome::violated(&c, format!("{}: {}", what, d))); } Ok(v.clone()) }
        Ev::Err(k, m) => Err(Outcome::violated("error-instead-of-value", format!("{} failed: {} {}", what, k, m.chars().take(100).collect::<String>()))),
        Ev::Panic(p) => Err(Outcome::violated("panic-escaped", format!("{}: {}", what, p))),
        Ev::ParseErr(p) => Err(Outcome::inconclusive("harness-parse", format!("{}: {}", what, p))),
      }
    };
    macro_rules! tri { ($e:expr) => { match $e { Ok(v) => v, Err(o) => return o } } }
    // element -> mathematical id, learned from singleton literals of this kind (so the oracle does not predict the encoding of elements)
    let learn = |s: &mut Sess, k: &str| -> Result<BTreeMap<CVal, usize>, Outcome> {
      let mut m = BTreeMap::new();
      for (sp, id) in universe(k) {
        let r = s.eval(&format!("{{{}}}", sp));
        match r { Ev::Ok(CVal::Set(_, _, e)) if e.len() == 1 => { m.insert(norm(&e[0]), id); } other => return Err(Outcome::inconclusive("singleton-literal", format!("{{{}}} -> {}", sp, other.show()))) }
      }
      Ok(m)
    };
    let to_ids = |v: &CVal, m: &BTreeMap<CVal, usize>| -> Result<BTreeSet<usize>, Outcome> {
      match v { CVal::Set(_, _, e) => { let mut o = BTreeSet::new(); for x in e { match m.get(&norm(x)) { Some(i) => { o.insert(*i); } None => return Err(Outcome::violated("foreign-element", format!("result {} contains {} which is no element of the operands' universe", v.show(), x.show()))) } } Ok(o) } o => Err(Outcome::violated("not-a-set", format!("expected a set, got {}", o.show()))) }
    };
    match mode {
      "binop" | "chain" | "member" | "literal" | "nested" => {
        let k = case.input["kind"].as_str().unwrap();
        let m = tri!(learn(&mut s, k));
        let a = getv("a");
        let ra = s.eval(&format!("a := {}", lit(k, &a)));
        let va = tri!(check(&ra, &format!("a := {}", lit(k, &a))));
        let ia = tri!(to_ids(&va, &m));
        if ia != ids(k, &a) { return Outcome::violated("literal-elements-wrong", format!("a := {} evaluated to {}", lit(k, &a), va.show())); }
        if mode == "literal" {
          // every rotation of the insertion order denotes the same set and, used as an element, the same element
          for r in 1..a.len() { let mut rot = a.clone(); rot.rotate_left(r); let ev = s.eval(&lit(k, &rot)); let v = tri!(check(&ev, &lit(k, &rot))); if tri!(to_ids(&v, &m)) != ia { return Outcome::violated("order-dependent-literal", format!("{} -> {} but {} -> {}", lit(k, &a), va.show(), lit(k, &rot), v.show())); }
          }
          return if a.len() >= 2 { Outcome::held() } else { Outcome::trivial() };
        }
        if mode == "nested" {
          // two spellings of the same set, used as elements of an outer set, are one element
          if a.len() < 2 { return Outcome::trivial(); }
          for r in 1..a.len() { let mut rot = a.clone(); rot.rotate_left(r);
            let both = format!("{{{}, {}}}", lit(k, &a), lit(k, &rot));
            let ev = s.eval(&both); let v = tri!(check(&ev, &both));
            if let CVal::Set(_, _, e) = &v { if e.len() != 1 { return Outcome::violated("duplicate-elements", format!("{} has {} elements: the two spellings denote the same set", both, e.len())); } }
          }
          return Outcome::held();
        }
        if mode == "member" {
          let mut n = 0;
          for (sp, id) in universe(k) {
            for (op, neg) in [("∈", false), ("∉", true)] {
              let forms = case.input["forms"].as_str().unwrap_or("lv");
              let el = if forms.starts_with('v') { let _ = s.eval(&format!("e{} := {}", id, sp)); format!("e{}", id) } else { sp.to_string() };
              let st = if forms.ends_with('v') { "a".to_string() } else { lit(k, &a) };
              let src = format!("{} {} {}", el, op, st);
              match s.eval(&src) { Ev::Ok(CVal::S(_, Sc::B(b))) => { let want = ia.contains(&id) != neg; if b != want { return Outcome::violated("membership-wrong", format!("{} with a = {} gave {} expected {}", src, va.show(), b, want)); } n += 1; } other => { if a.is_empty() { continue; } return Outcome::violated("error-instead-of-value", format!("{} with a = {} -> {}", src, va.show(), other.show())); } }
            }
          }
          // set/insert and set/remove are operations too: whatever they return must be a set of distinct elements of one kind whose
          // reported size is its number of elements (what the result contains is not stated by the property and is not judged)
          for (sp, id) in universe(k) {
            for f in ["set/insert", "set/remove"] {
              let forms = case.input["forms"].as_str().unwrap_or("lv");
              let el = if forms.starts_with('v') { format!("e{}", id) } else { sp.to_string() };
              let src = format!("{}(a, {})", f, el);
              if let Ev::Ok(v) = s.eval(&src) { if let Err((c, d)) = invariants(&v) { return Outcome::violated(&c, format!("{} with a = {}: {}", src, va.show(), d)); } n += 1; }
            }
          }
          return if n > 0 && !a.is_empty() { Outcome::held() } else { Outcome::trivial() };
        }
        let b = getv("b");
        let rb = s.eval(&format!("b := {}", lit(k, &b)));
        let vb = tri!(check(&rb, &format!("b := {}", lit(k, &b))));
        let ib = tri!(to_ids(&vb, &m));
        let apply = |op: &str, x: &BTreeSet<usize>, y: &BTreeSet<usize>| -> BTreeSet<usize> { match op { "∪" => x.union(y).cloned().collect(), "∩" => x.intersection(y).cloned().collect(), "∖" => x.difference(y).cloned().collect(), _ => x.symmetric_difference(y).cloned().collect() } };
        if mode == "chain" {
          let c = getv("c"); let (op1, op2) = (case.input["op1"].as_str().unwrap(), case.input["op2"].as_str().unwrap());
          let rc = s.eval(&format!("c := {}", lit(k, &c))); let vc = tri!(check(&rc, "c")); let ic = tri!(to_ids(&vc, &m));
          if a.is_empty() || b.is_empty() || c.is_empty() { return Outcome::trivial(); }
          let forms = case.input["forms"].as_str().unwrap_or("vvv").as_bytes().to_vec();
          let sp = |i: usize, name: &str, ids: &Vec<usize>| if forms[i] == b'v' { name.to_string() } else { lit(k, ids) };
          let src = format!("({} {} {}) {} {}", sp(0, "a", &a), op1, sp(1, "b", &b), op2, sp(2, "c", &c));
          let ev = s.eval(&src); let v = tri!(check(&ev, &format!("{} with a={} b={} c={}", src, va.show(), vb.show(), vc.show())));
          let want = apply(op2, &apply(op1, &ia, &ib), &ic);
          if tri!(to_ids(&v, &m)) != want { return Outcome::violated("set-algebra-wrong", format!("{} with a={} b={} c={} gave {}", src, va.show(), vb.show(), vc.show(), v.show())); }
          return Outcome::held();
        }
        let op = case.input["op"].as_str().unwrap();
        let forms = case.input["forms"].as_str().unwrap_or("vv").as_bytes().to_vec();
        let src = format!("{} {} {}", if forms[0] == b'v' { "a".to_string() } else { lit(k, &a) }, op, if forms[1] == b'v' { "b".to_string() } else { lit(k, &b) });
        let ev = s.eval(&src);
        let both_nonempty = !a.is_empty() && !b.is_empty();
        if !both_nonempty && !ev.is_ok() { return Outcome::trivial().tag("empty-operand-rejected"); }
        let v = tri!(check(&ev, &format!("{} with a={} b={}", src, va.show(), vb.show())));
        // the same operation called BY NAME (set/union(a, b), set/proper-superset(a, b), ...) is the same function
        let mut named_tag: Option<String> = None;
        {
          let name = match op { "∪" => "set/union", "∩" => "set/intersection", "∖" => "set/difference", "Δ" => "set/symmetric-difference", "⊆" => "set/subset", "⊇" => "set/superset", "⊊" | "⊂" => "set/proper_subset", _ => "set/proper-superset" };
          let nsrc = format!("{}({}, {})", name, if forms[0] == b'v' { "a".to_string() } else { lit(k, &a) }, if forms[1] == b'v' { "b".to_string() } else { lit(k, &b) });
          match s.eval(&nsrc) {
            Ev::Ok(nv) => { let same = if BINOPS.contains(&op) { to_ids(&nv, &m).ok() == to_ids(&v, &m).ok() } else { nv == v }; if !same { return Outcome::violated("named-form-differs", format!("{} gave {} but {} gave {} (a={} b={})", nsrc, nv.show(), src, v.show(), va.show(), vb.show())); } named_tag = Some(format!("named:{}", name)); }
            Ev::Panic(p) => return Outcome::violated("panic-escaped", format!("{}: {}", nsrc, p)),
            _ => { named_tag = Some(format!("named-form-rejected:{}", name)); }
          }
        }
        if BINOPS.contains(&op) {
          let want = apply(op, &ia, &ib);
          if tri!(to_ids(&v, &m)) != want { return Outcome::violated("set-algebra-wrong", format!("{} with a={} b={} gave {}", src, va.show(), vb.show(), v.show())); }
          // the result is a set like any other: membership in it agrees with its elements
          for (sp, id) in universe(k).into_iter().take(3) {
            let q = format!("{} ∈ ({})", sp, src);
            match s.eval(&q) { Ev::Ok(CVal::S(_, Sc::B(g))) => if g != want.contains(&id) { return Outcome::violated("membership-wrong", format!("{} with a={} b={} gave {} although {} evaluates to {}", q, va.show(), vb.show(), g, src, v.show())); }, Ev::Panic(p) => return Outcome::violated("panic-escaped", p), _ => {} }
          }
        } else {
          let want = match op { "⊆" => ia.is_subset(&ib), "⊇" => ia.is_superset(&ib), "⊊" | "⊂" => ia.is_subset(&ib) && ia != ib, _ => ia.is_superset(&ib) && ia != ib };
          match v { CVal::S(_, Sc::B(g)) => if g != want { return Outcome::violated("set-relation-wrong", format!("{} with a={} b={} gave {} expected {}", src, va.show(), vb.show(), g, want)); }, o => return Outcome::violated("not-a-bool", format!("{} gave {}", src, o.show())) }
        }
        let o = if both_nonempty { Outcome::held() } else { Outcome::trivial() };
        if let Some(t) = named_tag { o.tag(t) } else { o }
      }
      "convert" => {
        let k = case.input["kind"].as_str().unwrap();
        let m = tri!(learn(&mut s, k));
        let u = universe(k);
        let idx: Vec<usize> = serde_json::from_value(case.input["elems"].clone()).unwrap();
        let sp: Vec<&str> = idx.iter().map(|i| u[*i].0).collect();
        let lit = match case.input["shape"].as_str().unwrap() { "row" => format!("[{}]", sp.join(" ")), "col" => format!("[{}]", sp.join("; ")), _ => { let mut v = sp.clone(); if v.len() % 2 == 1 { v.push(sp[0]); } let h = v.len() / 2; format!("[{}; {}]", v[..h].join(" "), v[h..].join(" ")) } };
        if !s.eval(&format!("mm := {}", lit)).is_ok() { return Outcome::trivial().tag("matrix-literal-unsupported"); }
        let annot = match k { "i64" | "f64" | "u8" | "r64" | "string" | "bool" => k, _ => return Outcome::trivial() };
        let src = format!("u<{{{}}}> := mm", annot);
        let ev = s.eval(&src);
        if !ev.is_ok() { return Outcome::trivial().tag(format!("conversion-unsupported:{}", k)); }
        let v = tri!(check(&ev, &format!("{} with mm := {}", src, lit)));
        let want: BTreeSet<usize> = idx.iter().map(|i| u[*i].1).collect();
        if tri!(to_ids(&v, &m)) != want { return Outcome::violated("conversion-elements-wrong", format!("{} with mm := {} gave {}", src, lit, v.show())); }
        // the converted set must equal the literal of its distinct elements
        let mut firsts: Vec<&str> = Vec::new(); let mut seen = BTreeSet::new(); for i in idx.iter() { if seen.insert(u[*i].1) { firsts.push(u[*i].0); } }
        if let Ev::Ok(l) = s.eval(&format!("{{{}}}", firsts.join(", "))) { if let (CVal::Set(_, n1, _), CVal::Set(_, n2, _)) = (&v, &l) { if n1 != n2 { return Outcome::violated("size-mismatch", format!("{} with mm := {} reports size {} but the literal of its distinct elements reports {}", src, lit, n1, n2)); } } }
        if idx.len() > want.len() { Outcome::held() } else { Outcome::held().tag("no-repeats") }
      }
      "mixed" => {
        let lit = case.input["lit"].as_str().unwrap();
        match s.eval(lit) { Ev::Ok(v) => Outcome::violated("mixed-kinds-accepted", format!("{} evaluated to {}", lit, v.show())), Ev::Panic(p) => Outcome::violated("panic-escaped", p), Ev::ParseErr(p) => Outcome::inconclusive("harness-parse", format!("{} {}", lit, p)), Ev::Err(..) => Outcome::held().tag("rejected") }
      }
      "comp" => {
        let a: Vec<i64> = serde_json::from_value(case.input["a"].clone()).unwrap();
        let b: Vec<i64> = serde_json::from_value(case.input["b"].clone()).unwrap();
        let shape = case.input["shape"].as_u64().unwrap();
        let sl = |v: &Vec<i64>| format!("{{{}}}", v.iter().map(|x| x.to_string()).collect::<Vec<_>>().join(", "));
        tri!(check(&s.eval(&format!("a := {}", sl(&a))), "a")); tri!(check(&s.eval(&format!("b := {}", sl(&b))), "b"));
        let f = |x: i64| sc_f64(x as f64);
        let (src, want): (String, BTreeSet<CVal>) = match shape {
          0 => ("{x | x <- a}".into(), a.iter().map(|x| f(*x)).collect()),
          1 => ("{x * 2 | x <- a}".into(), a.iter().map(|x| f(*x * 2)).collect()),
          2 => ("{x | x <- a, x > 1}".into(), a.iter().filter(|x| **x > 1).map(|x| f(*x)).collect()),
          3 => ("{x % 2 | x <- a}".into(), a.iter().map(|x| f(*x % 2)).collect()),
          4 => ("{(x, y) | x <- a, y <- b}".into(), a.iter().flat_map(|x| b.iter().map(move |y| CVal::Tuple(vec![f(*x), f(*y)]))).collect()),
          5 => ("{x + y | x <- a, y <- b, x != y}".into(), a.iter().flat_map(|x| b.iter().filter(move |y| *y != x).map(move |y| f(*x + *y))).collect()),
          _ => ("{x | x <- a, x > 0, x < 4}".into(), a.iter().filter(|x| **x > 0 && **x < 4).map(|x| f(*x)).collect()),
        };
        let ev = s.eval(&src);
        if want.is_empty() && !ev.is_ok() { return Outcome::trivial().tag("empty-comprehension-rejected"); }
        let v = tri!(check(&ev, &format!("{} with a={} b={}", src, sl(&a), sl(&b))));
        match &v { CVal::Set(_, _, e) => { let got: BTreeSet<CVal> = e.iter().map(norm).collect(); let w: BTreeSet<CVal> = want.iter().map(norm).collect(); if got != w { return Outcome::violated("comprehension-wrong", format!("{} with a={} b={} gave {}", src, sl(&a), sl(&b), v.show())); } Outcome::held() } o => Outcome::violated("not-a-set", format!("{} gave {}", src, o.show())) }
      }
      _ => Outcome::inconclusive("bad-mode", mode.into()),
    }
  }
}
