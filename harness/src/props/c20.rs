//! C20 Source includes expand to the spliced text, and cycles are detected.

use crate::corpus::verif_dir;
use crate::fw::*;
use serde_json::{json, Value as J};
use std::collections::{BTreeMap, BTreeSet};
use std::path::{Path, PathBuf};

pub struct C20;

const FILES: [&str; 4] = ["main.mec", "d1/b.mec", "d2/c.mec", "d1/e.mec"];

fn rel(from: &str, to: &str, rng: &mut Rng) -> String {
  // path of `to` relative to the directory of `from`
  let fd: Vec<&str> = from.split('/').collect(); let td: Vec<&str> = to.split('/').collect();
  let fdir = &fd[..fd.len() - 1]; let tdir = &td[..td.len() - 1];
  let mut p = String::new();
  if fdir == tdir { if rng.chance(1, 3) { p.push_str("./"); } p.push_str(td[td.len() - 1]); }
  else { for _ in fdir { p.push_str("../"); } if fdir.is_empty() && rng.chance(1, 3) { p.push_str("./"); } p.push_str(to); }
  p
}

/// reference fence rule (CommonMark style, as documented): opening = up to 3 spaces, then >= 3 of ` or ~ ; closing = same marker, at least as long, nothing but blanks after
fn fence_open(line: &str) -> Option<(char, usize)> {
  let t = line.trim_end_matches(['\n', '\r']);
  let indent = t.chars().take_while(|c| *c == ' ').count();
  if indent > 3 { return None; }
  let rest = &t[indent..];
  let m = rest.chars().next()?;
  if m != '`' && m != '~' { return None; }
  let n = rest.chars().take_while(|c| *c == m).count();
  if n >= 3 { Some((m, n)) } else { None }
}
fn fence_close(line: &str, m: char, n: usize) -> bool {
  match fence_open(line) { Some((m2, n2)) if m2 == m && n2 >= n => { let t = line.trim_end_matches(['\n', '\r']); let indent = t.chars().take_while(|c| *c == ' ').count(); t[indent + n2..].trim().is_empty() } _ => false }
}

#[derive(Debug, Clone, PartialEq)]
enum RefErr { Circular, Missing(String) }

/// independent reference expander over an in-memory tree (path -> content)
fn ref_expand(tree: &BTreeMap<String, String>, aliases: &BTreeMap<String, String>, file: &str, stack: &mut Vec<String>, errs: &mut Vec<RefErr>) -> Option<String> {
  let canon = aliases.get(file).cloned().unwrap_or(file.to_string());
  if stack.contains(&canon) { errs.push(RefErr::Circular); return None; }
  let Some(src) = tree.get(&canon) else { errs.push(RefErr::Missing(file.to_string())); return None; };
  stack.push(canon.clone());
  let mut out = String::new();
  let mut fence: Option<(char, usize)> = None;
  let mut failed = false;
  for line in src.split_inclusive('\n') {
    if let Some((m, n)) = fence { out.push_str(line); if fence_close(line, m, n) { fence = None; } continue; }
    if let Some(f) = fence_open(line) { fence = Some(f); out.push_str(line); continue; }
    let (body, nl) = match line.strip_suffix('\n') { Some(b) => (b, "\n"), None => (line, "") };
    let t = body.trim();
    if t.len() >= 2 && t.starts_with('{') && t.ends_with('}') && t[1..t.len() - 1].trim().ends_with(".mec") {
      let target = t[1..t.len() - 1].trim();
      // resolve relative to the including file's directory
      let dir: Vec<&str> = canon.split('/').collect(); let mut parts: Vec<String> = dir[..dir.len() - 1].iter().map(|s| s.to_string()).collect();
      for comp in target.split('/') { match comp { "." | "" => {}, ".." => { parts.pop(); } c => parts.push(c.to_string()) } }
      let resolved = parts.join("/");
      match ref_expand(tree, aliases, &resolved, stack, errs) { Some(e) => { out.push_str(&e); out.push_str(nl); } None => { if let Some(RefErr::Missing(m)) = errs.last_mut() { if *m == resolved { *m = target.to_string(); } } failed = true; } }
      continue;
    }
    out.push_str(line);
  }
  stack.pop();
  if failed { None } else { Some(out) }
}

impl Prop for C20 {
  fn id(&self) -> &'static str { "C20" }
  fn rule(&self) -> String { "file trees of up to 4 files in 3 directories written under /verif/work: EVERY subset of include edges over 3 files (512 graphs, including self-loops, diamonds and cycles that do not pass through the root) and seeded / exhaustive subsets over 4 files; include lines decorated with leading/trailing blanks, inner blanks, ./ and ../ paths, repeated includes; include-looking lines inside backtick and tilde fences of length 3-5 with info strings and up to 3 spaces of indentation, unclosed fences, closing fences shorter than the opening, other brace lines ({6 * 7}, {foo/bar}); files with and without trailing newline; CRLF; missing targets; a symlinked alias. mech::read_mech_source_file(root) is compared byte for byte with an independent reference expander; errors must say `Circular include detected` or `Include failed:` and name the target. Non-trivial = the graph has at least one include edge".into() }
  fn assumptions(&self) -> Vec<String> { vec!["when a graph contains both a cycle and a missing file reachable from the root, either error is accepted".into(), "an include line is replaced by the expansion and keeps its own line terminator".into()] }
  fn floor(&self, tier: Tier) -> usize { if tier == Tier::Quick { 600 } else { 6000 } }

  fn gen(&self, tier: Tier, seed: u64) -> Vec<Case> {
    let mut out = Vec::new();
    let mut emit = |out: &mut Vec<Case>, nfiles: usize, mask: u32, variant: &str, idx: usize| {
      let id = format!("files={};edges={:0width$b};variant={};n={}", nfiles, mask, variant, idx, width = nfiles * nfiles);
      let mut rng = Rng::keyed(seed, &id);
      let mut tree: BTreeMap<String, String> = BTreeMap::new();
      // CRLF line ends: the dedicated variant, and one in three of the fence variants (fence recognition must ignore the CR)
      let crlf = variant == "crlf" || (matches!(variant, "fences" | "fence-last" | "decorated") && idx % 3 == 1);
      let nl = if crlf { "\r\n" } else { "\n" };
      for i in 0..nfiles {
        let mut lines: Vec<String> = vec![format!("F{} first line", i)];
        for j in 0..nfiles {
          if mask & (1 << (i * nfiles + j)) != 0 {
            let p = rel(FILES[i], FILES[j], &mut rng);
            let deco = match variant { "decorated" => match rng.below(4) { 0 => format!("  {{{}}}", p), 1 => format!("{{ {} }}", p), 2 => format!("{{{}}}   ", p), _ => format!("\t{{{}}}", p) }, _ => format!("{{{}}}", p) };
            lines.push(deco);
            if (variant == "repeat" || variant == "fence-last") && rng.chance(1, 2) { lines.push(format!("{{{}}}", p)); }
            lines.push(format!("F{} after including F{}", i, j));
          }
        }
        if variant == "fences" || variant == "decorated" {
          // include-looking lines inside fences and other brace lines must stay untouched
          let m = *rng.pick(&["```", "````", "~~~", "~~~~~"]);
          let ind = *rng.pick(&["", " ", "   "]);
          lines.push(format!("{}{}{}", ind, m, rng.pick(&["", "mech", "text info"])));
          lines.push(format!("{{{}}}", rel(FILES[i], FILES[(i + 1) % nfiles], &mut rng)));
          lines.push("{nested.mec}".into());
          // lines that look like a closing fence but are not one (too short, the other marker, text after the marker), each followed
          // by more include-looking lines that are therefore still inside the fence
          if rng.chance(2, 3) {
            let other = if m.starts_with('`') { "~" } else { "`" };
            let pseudo = match rng.below(5) { 0 => m[..3].to_string(), 1 => other.repeat(m.len()), 2 => other.repeat(m.len() + 2), 3 => format!("{} trailing", m), _ => format!("{}{}", m[..3].to_string(), other.repeat(3)) };
            if pseudo != m { lines.push(pseudo); lines.push(format!("{{{}}}", rel(FILES[i], FILES[(i + 2) % nfiles], &mut rng))); lines.push("{absent.mec}".into()); lines.push(format!("{{{}}}", FILES[i])); }
          }
          // the genuine closer, decorated the ways the fence rule allows: trailing blanks / tabs, a longer run of the marker, its own indentation
          {
            let tail = *rng.pick(&["", "", "  ", "\t", " \t ", " "]);
            let longer = if rng.chance(1, 4) { m[..1].repeat(1 + rng.below(3) as usize) } else { String::new() };
            let cind = if rng.chance(1, 3) { *rng.pick(&["", " ", "  ", "   "]) } else { ind };
            lines.push(format!("{}{}{}{}", cind, m, longer, tail));
          }
          lines.push("{6 * 7}".into()); lines.push("{foo/bar}".into()); lines.push("x := {a: 1}".into());
          // brace lines that contain ".mec" without ending in it are not includes
          for l in ["{robot.mechanism}", "{archive/notes.mec.bak}", "{cfg.mecanum-wheels}", "{x.mecx}", "{a.mec b}"] { if rng.chance(1, 3) { lines.push(l.into()); } }
          // an include AFTER the fence block (forward edge): it is expanded only if the fence above was recognised as closed
          if i + 1 < nfiles && rng.chance(1, 2) { lines.push(format!("{{{}}}", rel(FILES[i], FILES[i + 1], &mut rng))); lines.push(format!("F{} after the fence", i)); }
          if variant == "fences" && rng.chance(1, 4) { lines.push("~~~".into()); lines.push(format!("{{{}}}", FILES[0])); } // unclosed fence swallows the rest
        }
        if variant == "missing" && i == nfiles - 1 { lines.push("{nothere.mec}".into()); }
        // fence-last: the file ends inside / right after a fence, is a single fence, or is empty (no text after the last fence)
        if variant == "fence-last" {
          match rng.below(4) { 0 => { lines.clear(); } 1 => { lines = vec!["```".into(), "only a fence".into(), "```".into()]; } _ => { lines.push("~~~".into()); lines.push(format!("{{{}}}", FILES[0])); lines.push("~~~".into()); } }
        } else {
        lines.push(format!("F{} last line", i));
        }
        let mut txt = lines.join(nl);
        if !(variant == "no-trailing-newline") { txt.push_str(nl); }
        tree.insert(FILES[i].to_string(), txt);
      }
      let alias = variant == "symlink";
      out.push(Case { id: id.clone(), cell: format!("files={};variant={};edges={}", nfiles, variant, mask.count_ones()), input: json!({"tree": tree, "alias": alias, "nfiles": nfiles}) });
    };
    // all 512 graphs on 3 files, plain
    for mask in 0..512u32 { emit(&mut out, 3, mask, "plain", 0); }
    let variants = ["decorated", "fences", "repeat", "fence-last", "no-trailing-newline", "crlf", "missing", "symlink"];
    let per = if tier == Tier::Quick { 40 } else { 512 };
    // random graphs on 3 files are mostly cyclic; the variants about repeated includes and fences are only informative on
    // acyclic graphs, so two thirds of their graphs keep forward edges only (i -> j with i < j)
    let forward: u32 = (0..3).flat_map(|i| (0..3).filter(move |j| i < *j).map(move |j| 1u32 << (i * 3 + j))).sum();
    for v in variants.iter() { for k in 0..(if *v == "fences" { per * 3 } else { per }) { let mut rng = Rng::keyed(seed, &format!("c20v{}{}", v, k)); let mut mask = if tier == Tier::Quick { rng.below(512) as u32 } else { (k % 512) as u32 }; if matches!(*v, "repeat" | "fence-last" | "fences" | "decorated") && k % 3 != 0 { mask &= forward; if mask == 0 { mask = forward; } } emit(&mut out, 3, mask, v, k); } }
    // 4 files: seeded sample (quick) / all 65536 (thorough)
    let n4 = if tier == Tier::Quick { 300 } else { 65536 };
    for k in 0..n4 { let mut rng = Rng::keyed(seed, &format!("c20four{}", k)); let mask = if tier == Tier::Quick { rng.below(65536) as u32 } else { k as u32 }; let v = if k % 5 == 0 { "decorated" } else { "plain" }; emit(&mut out, 4, mask, v, k); }
    out
  }

  /// syscall stage (thorough): expand a batch of trees under strace; between the markers every opened path must lie inside
  /// the tree, nothing may be opened for writing, and the number of opens must equal the number of expansions of the reference
  fn post_stage(&self, tier: Tier, seed: u64, self_exe: &str) -> Vec<(Case, Outcome)> {
    if tier != Tier::Thorough || self_exe.is_empty() { return vec![]; }
    let dir = format!("{}/work/c20trace-{}", verif_dir(), std::process::id());
    let _ = std::fs::create_dir_all(&dir);
    let log = format!("{}/strace.log", dir);
    let out = std::process::Command::new("strace").args(["-f", "-e", "trace=open,openat,creat,unlink,unlinkat,rename,mkdir,access,faccessat,faccessat2,%network", "-o", &log, self_exe, "c20trace", &seed.to_string(), &dir]).output();
    let case = Case { id: "syscalls;strace".into(), cell: "syscalls".into(), input: json!({"seed": seed}) };
    let res = match (out, std::fs::read_to_string(&log)) {
      (Ok(o), Ok(txt)) if o.status.success() => {
        let expected: usize = String::from_utf8_lossy(&o.stdout).lines().find_map(|l| l.strip_prefix("expansions ").and_then(|x| x.trim().parse().ok())).unwrap_or(usize::MAX);
        let (mut inside, mut opens, mut bad, mut b, mut e) = (false, 0usize, Vec::new(), false, false);
        for l in txt.lines() {
          if l.contains("/verif-mark-begin") { inside = true; b = true; continue; }
          if l.contains("/verif-mark-end") { inside = false; e = true; continue; }
          if !inside || l.contains("+++") || l.contains("--- SIG") { continue; }
          // every file system call in the window must name a path inside the tree; opens must be read-only; existence checks
          // (access / faccessat) inside the tree are reads
          let is_open = l.contains(" open(") || l.contains(" openat(") || l.contains(" creat(");
          if is_open && l.contains("= -1") { continue; }
          if is_open { opens += 1; }
          let inside_tree = l.contains(&dir);
          let writes = l.contains("O_WRONLY") || l.contains("O_RDWR") || l.contains("O_CREAT") || l.contains(" creat(") || l.contains("unlink") || l.contains("rename") || l.contains("mkdir");
          if !inside_tree || writes { bad.push(l.to_string()); }
        }
        if !b || !e { Outcome::inconclusive("markers-missing", String::new()) }
        else if !bad.is_empty() { Outcome::violated("foreign-or-writing-syscall", format!("{:?}", bad.iter().take(5).collect::<Vec<_>>())) }
        else if opens != expected { Outcome::violated("open-count-differs", format!("{} files opened, the reference performs {} expansions", opens, expected)) }
        else { Outcome::held().tag("syscalls:reads-inside-tree-only").num("opens", opens as f64) }
      }
      (o, _) => Outcome::inconclusive("strace-failed", format!("{:?}", o.map(|x| x.status.code()))),
    };
    let _ = std::fs::remove_dir_all(&dir);
    vec![(case, res)]
  }

  fn run(&self, case: &Case, _flavour: &str) -> Outcome {
    let tree: BTreeMap<String, String> = serde_json::from_value(case.input["tree"].clone()).unwrap();
    let alias = case.input["alias"].as_bool().unwrap_or(false);
    let nonce = { let mut h: u64 = 1469598103934665603; for b in case.id.bytes() { h ^= b as u64; h = h.wrapping_mul(1099511628211); } h };
    let root = PathBuf::from(format!("{}/work/c20-{}-{:x}", verif_dir(), std::process::id(), nonce));
    let _ = std::fs::remove_dir_all(&root);
    for (p, txt) in tree.iter() { let fp = root.join(p); std::fs::create_dir_all(fp.parent().unwrap()).unwrap(); std::fs::write(&fp, txt).unwrap(); }
    let mut aliases = BTreeMap::new();
    let mut tree2 = tree.clone();
    if alias {
      // main.mec additionally includes alias.mec, a symlink to d1/b.mec (or to main.mec when there is no edge): the graph is judged on canonical files
      let target = "d1/b.mec";
      let _ = std::os::unix::fs::symlink(root.join(target), root.join("alias.mec"));
      let m = tree2.get_mut("main.mec").unwrap(); m.push_str("{alias.mec}\n");
      std::fs::write(root.join("main.mec"), m.as_bytes()).unwrap();
      aliases.insert("alias.mec".to_string(), target.to_string());
    }
    let mut errs = Vec::new();
    let expect = ref_expand(&tree2, &aliases, "main.mec", &mut Vec::new(), &mut errs);
    let got = guarded(|| mech::read_mech_source_file(&root.join("main.mec")));
    let _ = std::fs::remove_dir_all(&root);
    let edges = tree2.values().map(|t| t.matches(".mec}").count()).sum::<usize>();
    let describe = || tree2.iter().map(|(p, t)| format!("--- {} ---\n{}", p, t)).collect::<Vec<_>>().join("");
    let got = match got { Ok(g) => g, Err(p) => return Outcome::violated("panic-escaped", format!("{}\n{}", p, describe())) };
    match (expect, got) {
      (Some(want), Ok(code)) => {
        let text = match code { mech_core::MechSourceCode::String(s) => s, other => return Outcome::violated("not-text", format!("{:?}", other).chars().take(200).collect()) };
        if text != want {
          let at = text.bytes().zip(want.bytes()).position(|(a, b)| a != b).unwrap_or(text.len().min(want.len()));
          let class = if text.replace('\r', "") == want.replace('\r', "") { "line-terminator-changed" } else { "expansion-differs" };
          return Outcome::violated(class, format!("first difference at byte {}: got {:?} expected {:?}\n{}", at, text.chars().skip(at.saturating_sub(20)).take(80).collect::<String>(), want.chars().skip(at.saturating_sub(20)).take(80).collect::<String>(), describe()));
        }
        if edges > 0 { Outcome::held() } else { Outcome::trivial() }
      }
      (Some(_), Err(e)) => { let m = e.kind_message(); Outcome::violated(if m.contains("Circular") { "false-cycle" } else { "error-instead-of-expansion" }, format!("acyclic, complete graph rejected: {}\n{}", m, describe())) }
      (None, Ok(code)) => Outcome::violated(if errs.contains(&RefErr::Circular) { "cycle-not-detected" } else { "missing-file-not-reported" }, format!("expected {:?} but loading succeeded\n{}", errs, describe())),
      (None, Err(e)) => {
        let m = format!("{} {}", e.kind_message(), e.full_chain_message());
        let ok = errs.iter().any(|r| match r { RefErr::Circular => m.contains("Circular include detected"), RefErr::Missing(t) => m.contains("Include failed:") && m.contains(t.trim_start_matches("./")) });
        if ok { Outcome::held().tag(if m.contains("Circular") { "circular" } else { "missing" }) } else { Outcome::violated("wrong-error", format!("expected one of {:?} but got `{}`\n{}", errs, m.chars().take(200).collect::<String>(), describe())) }
      }
    }
  }
}

/// number of file expansions the reference performs for a tree (root included); None if the expansion fails
fn count_expansions(tree: &BTreeMap<String, String>, file: &str, stack: &mut Vec<String>) -> Option<usize> {
  if stack.contains(&file.to_string()) { return None; }
  let src = tree.get(file)?;
  stack.push(file.to_string());
  let mut n = 1; let mut fence: Option<(char, usize)> = None;
  for line in src.split_inclusive('\n') {
    if let Some((m, k)) = fence { if fence_close(line, m, k) { fence = None; } continue; }
    if let Some(f) = fence_open(line) { fence = Some(f); continue; }
    let t = line.trim();
    if t.len() >= 2 && t.starts_with('{') && t.ends_with('}') && t[1..t.len() - 1].trim().ends_with(".mec") {
      let target = t[1..t.len() - 1].trim();
      let dir: Vec<&str> = file.split('/').collect(); let mut parts: Vec<String> = dir[..dir.len() - 1].iter().map(|s| s.to_string()).collect();
      for comp in target.split('/') { match comp { "." | "" => {}, ".." => { parts.pop(); } c => parts.push(c.to_string()) } }
      n += count_expansions(tree, &parts.join("/"), stack)?;
    }
  }
  stack.pop();
  Some(n)
}

/// body of `mv c20trace <seed> <dir>`: writes acyclic trees first, then only expands them between the marker syscalls
pub fn trace_main(seed: u64, dir: &str) {
  install_quiet_panic_hook();
  let cases = C20.gen(Tier::Quick, seed);
  let mut roots = Vec::new(); let mut expected = 0usize;
  for (i, c) in cases.iter().enumerate().take(400) {
    let tree: BTreeMap<String, String> = serde_json::from_value(c.input["tree"].clone()).unwrap();
    if c.input["alias"].as_bool().unwrap_or(false) { continue; }
    let Some(n) = count_expansions(&tree, "main.mec", &mut Vec::new()) else { continue };
    let root = PathBuf::from(format!("{}/t{}", dir, i));
    for (p, txt) in tree.iter() { let fp = root.join(p); std::fs::create_dir_all(fp.parent().unwrap()).unwrap(); std::fs::write(&fp, txt).unwrap(); }
    roots.push(root); expected += n;
  }
  let b = std::ffi::CString::new("/verif-mark-begin").unwrap(); let e = std::ffi::CString::new("/verif-mark-end").unwrap();
  unsafe { libc::access(b.as_ptr(), 0); }
  let mut ok = 0;
  for r in roots.iter() { if let Ok(Ok(_)) = guarded(|| mech::read_mech_source_file(&r.join("main.mec"))) { ok += 1; } }
  unsafe { libc::access(e.as_ptr(), 0); }
  println!("expanded {} of {}", ok, roots.len());
  println!("expansions {}", expected);
}
