use crate::fw::Prop;
pub mod c01;

pub fn get(id: &str) -> Option<Box<dyn Prop>> {
  match id {
    "C01" => Some(Box::new(c01::C01)),
    _ => None,
  }
}
pub const ALL: [&str; 1] = ["C01"];
