use crate::fw::Prop;

pub fn get(id: &str) -> Option<Box<dyn Prop>> {
  match id {
    _ => None,
  }
}
