//! C04 Indexed assignment changes exactly the addressed elements.

use super::c03::*;
use crate::canon::*;
use crate::fw::*;
use crate::refm::*;
use crate::sess::*;
use serde_json::{json, Value as J};
use std::collections::BTreeMap;

pub struct C04;

const OPS: [&str; 5] = ["=", "+=", "-=", "*=", "/="];

fn positions(x: &CVal, sels: &[Sel]) -> Option<Vec<usize>> {
  // 0-based column-major linear positions addressed, in selection order
  let (r, c) = x.shape();
  if sels.len() == 1 { Some(sels[0].resolve(r * c)?.iter().map(|p| p - 1).collect()) }
  else {
    let rp = sels[0].resolve(r)?; let cp = sels[1].resolve(c)?;
    let mut v = Vec::new();
    for j in cp.iter() { for i in rp.iter() { v.push((j - 1) * r + (i - 1)); } }
    Some(v)
  }
}

/// model: Ok(per-element expectation) ; elements not addressed keep Exact(old)
fn apply_model(x: &CVal, pos: &[usize], op: &str, src: &CVal, k: &str) -> Vec<Exp> {
  let old = x.elems();
  let mut exp: Vec<Exp> = old.iter().map(|e| Exp::Exact(e.clone())).collect();
  let srcs = src.elems();
  for (i, p) in pos.iter().enumerate() {
    let v = if src.is_matrix() { &srcs[i] } else { &srcs[0] };
    exp[*p] = if op == "=" { Exp::Exact(v.clone()) } else {
      match (&old[*p], v) { (CVal::S(_, a), CVal::S(_, b)) => ref_binop(&op[..1], k, a, b), _ => Exp::Free }
    };
  }
  exp
}

fn stmt_text(sels: &[Sel], ik: &str, op: &str, v: &CVal) -> String { format!("x{} {} {}", index_text(sels, ik), op, lit(v).expect("source literal")) }

impl Prop for C04 {
  fn id(&self) -> &'static str { "C04" }
  fn rule(&self) -> String { "cells = element kind x matrix shape x index form (as C03) x operator (= += -= *= /=) x source (scalar | vector through distinct linear indices / range / mask | wrong-kind) x variant (in-range | out-of-range); plus histories of 3-8 assignments to one variable. After every statement the whole target, a bystander matrix and the source are compared with a reference store. Non-trivial = the statement form is supported (in-range statement succeeded) or the failure/unchanged clause was exercised".into() }
  fn assumptions(&self) -> Vec<String> { vec![
    "op-assign results use the same reference arithmetic as C01 (unrepresentable results unconstrained)".into(),
    "vector sources are only judged through distinct linear indices, ranges and masks, as the property states".into(),
  ] }
  fn floor(&self, tier: Tier) -> usize { if tier == Tier::Quick { 2500 } else { 10000 } }
  fn flavours(&self, tier: Tier) -> Vec<&'static str> { if tier == Tier::Thorough { vec!["chk", "rel", "asan"] } else { vec!["chk"] } }

  fn gen(&self, tier: Tier, seed: u64) -> Vec<Case> {
    let mut out = Vec::new();
    let kinds: Vec<&str> = if tier == Tier::Quick { vec!["f64", "u8", "i64", "bool", "string", "r64", "f32", "u128", "i8", "c64"] } else { ALL_KINDS.to_vec() };
    let shapes: Vec<(usize, usize)> = if tier == Tier::Quick { vec![(1, 1), (1, 3), (3, 1), (2, 2), (2, 3), (3, 3), (4, 4), (7, 1)] } else { SHAPES.to_vec() };
    let draws = if tier == Tier::Quick { 1 } else { 2 };
    for k in kinds.iter() {
      let ops: Vec<&str> = if *k == "bool" || *k == "string" { vec!["="] } else { OPS.to_vec() };
      for (r, c) in shapes.iter() {
        let mut formsets: Vec<Vec<&str>> = FORMS1.iter().map(|f| vec![*f]).collect();
        for a in FORMS2.iter() { for b in FORMS2.iter() { formsets.push(vec![*a, *b]); } }
        for forms in formsets.iter() {
          // a 2-D mask needs an element count with a factorisation into two extents >= 2
          if forms.len() == 1 && forms[0] == "mm" && !(2..r * c).any(|d| (r * c) % d == 0 && (r * c) / d >= 2) { continue; }
          for op in ops.iter() {
            for d in 0..draws {
              let fname = forms.join(",");
              let extents: Vec<usize> = if forms.len() == 1 { vec![r * c] } else { vec![*r, *c] };
              // sources: scalar always; vector for 1-D forms v/ri/m
              let mut srcs = vec!["scalar"];
              if forms.len() == 1 && matches!(forms[0], "v" | "ri" | "m" | "mm") { srcs.push("vector"); }
              if *op == "=" && d == 0 { srcs.push("wrongkind"); }
              // special scalar sources: exactly zero (a kernel that treats a zero operand as "nothing to do"), and a value that
              // one of the addressed elements already holds (a kernel that stops or skips at an element equal to the source)
              if d == 0 && *k != "bool" && *k != "string" {
                if *op != "/=" || is_float(k) { srcs.push("scalar0"); }
                if *op == "=" || *op == "+=" { srcs.push("scalarP"); }
              }
              for st in srcs.iter() {
                // (the special scalar sources are further value draws of the scalar cells)
                let base = format!("kind={};shape={}x{};form={};op={};src={}", k, r, c, fname, op, if st.starts_with("scalar") { "scalar" } else { st });
                let dtag = match *st { "scalar0" => "z".to_string(), "scalarP" => "p".to_string(), _ => d.to_string() };
                let mut rng = Rng::keyed(seed, &format!("{};d={}", base, dtag));
                let ik = *rng.pick(&["f64", "f64", "u8", "u64"]);
                let x = index_matrix(k, *r, *c, rng.below(5) as i64);
                let w = index_matrix(k, 2, 2, 40);
                let sels: Vec<Sel> = forms.iter().zip(extents.iter()).map(|(f, e)| if *op != "=" || *st == "vector" { gen_sel_distinct(f, *e, &mut rng) } else { gen_sel(f, *e, &mut rng) }).collect();
                let pos = positions(&x, &sels).unwrap();
                let n = pos.len();
                let mk = |i: i64| -> CVal { if *k == "bool" { CVal::S("bool".into(), Sc::B(i % 2 == 0)) } else { CVal::S(k.to_string(), small_val(k, if op.starts_with('/') || op.starts_with('*') { 2 + i % 2 } else { 1 + i % 4 })) } };
                let v: CVal = match *st {
                  "scalar" => mk(rng.below(4) as i64),
                  "scalar0" => CVal::S(k.to_string(), match *k { "f64" => Sc::f64(0.0), "f32" => Sc::f32(0.0), "r64" => Sc::R(0, 1), "c64" => Sc::C(canon_f64(0.0), canon_f64(0.0)), _ => small_val(k, 0) }),
                  "scalarP" => if pos.is_empty() { mk(1) } else { x.elems()[pos[0]].clone() },
                  "vector" => { let e: Vec<CVal> = (0..n as i64).map(|i| if *k == "bool" { mk(i) } else { CVal::S(k.to_string(), small_val(k, 50 + i)) }).collect(); CVal::M(k.to_string(), 1, n, e) }
                  _ => if *k == "string" { CVal::S("f64".into(), Sc::f64(3.5)) } else { CVal::S("string".into(), Sc::S("zz".into())) },
                };
                let stmt = stmt_text(&sels, ik, op, &v);
                let readback = format!("x{}", index_text(&sels, ik));
                out.push(Case { id: format!("{};var=in;d={}", base, dtag), cell: format!("{};var=in", base), input: json!({"kind": k, "x": x, "w": w, "v": v, "stmt": stmt, "readback": readback, "pos": pos, "op": op, "srctype": if st.starts_with("scalar") { "scalar" } else { st }, "probe": J::Null}) });
                if *st == "scalar" && (d == 0) && (*op == "=" || *op == "+=") {
                  for (p, e) in extents.iter().enumerate() {
                    for (label, bad) in oor_variants(&sels[p], *e) {
                      let mut s2 = sels.clone(); s2[p] = bad;
                      if positions(&x, &s2).is_some() { continue; }
                      let cell = format!("{};var=oor{}-{}", base, p + 1, label);
                      out.push(Case { id: format!("{};d={}", cell, d), cell, input: json!({"kind": k, "x": x, "w": w, "v": v, "stmt": stmt_text(&s2, ik, op, &v), "readback": J::Null, "pos": J::Null, "op": op, "srctype": st, "probe": stmt}) });
                    }
                  }
                }
              }
            }
          }
        }
        // histories: chains of plain scalar assignments over widely used forms
        let nh = if tier == Tier::Quick { 2 } else { 8 };
        for h in 0..nh {
          let base = format!("kind={};shape={}x{};form=history;op==;src=scalar", k, r, c);
          let id = format!("{};var=in;d={}", base, h);
          let mut rng = Rng::keyed(seed, &id);
          let x = index_matrix(k, *r, *c, 0);
          let mut steps = Vec::new();
          let len = 3 + rng.below(6) as usize;
          for t in 0..len {
            let two = rng.chance(1, 2);
            let forms: Vec<&str> = if two { vec![*rng.pick(&["s", "v", "ri", "a"]), *rng.pick(&["s", "v", "ri", "a"])] } else { vec![*rng.pick(&["s", "v", "ri", "a"])] };
            let extents: Vec<usize> = if two { vec![*r, *c] } else { vec![r * c] };
            let sels: Vec<Sel> = forms.iter().zip(extents.iter()).map(|(f, e)| gen_sel(f, *e, &mut rng)).collect();
            if forms == vec!["a", "a"] { continue; }
            let v = if *k == "bool" { CVal::S("bool".into(), Sc::B(t % 2 == 0)) } else { CVal::S(k.to_string(), small_val(k, 60 + t as i64)) };
            steps.push(json!({"stmt": format!("x{} = {}", index_text(&sels, "f64"), lit(&v).unwrap()), "v": v, "pos": positions(&x, &sels).unwrap()}));
          }
          out.push(Case { id, cell: format!("{};var=in", base), input: json!({"kind": k, "x": x, "history": steps}) });
        }
      }
    }
    out
  }

  fn run(&self, case: &Case, _flavour: &str) -> Outcome {
    let k = case.input["kind"].as_str().unwrap().to_string();
    let x: CVal = serde_json::from_value(case.input["x"].clone()).unwrap();
    if let Some(hist) = case.input.get("history").and_then(|h| h.as_array()) { return run_history(&k, &x, hist); }
    let w: CVal = serde_json::from_value(case.input["w"].clone()).unwrap();
    let v: CVal = serde_json::from_value(case.input["v"].clone()).unwrap();
    let stmt = case.input["stmt"].as_str().unwrap().to_string();
    let op = case.input["op"].as_str().unwrap().to_string();
    let st = case.input["srctype"].as_str().unwrap().to_string();
    let form = case.cell.split("form=").nth(1).unwrap_or("").split(';').next().unwrap_or("").to_string();
    // index forms: in half of the cases (hash of the case id) index expressions of the target are bound to variables first
    // (x[i1,i2] = v instead of x[2,[1 3]] = v); the definitions are part of every fresh session, before the snapshot
    let h = case.id.bytes().fold(0xcbf29ce484222325u64, |h, b| (h ^ b as u64).wrapping_mul(0x100000001b3));
    let hoist = |text: &str, prefix: &str| -> (Vec<String>, String) {
      let none = (vec![], text.to_string());
      if (h >> 8) & 1 == 0 || !text.starts_with("x[") { return none; }
      let mut depth = 0; let mut end = None;
      for (i, ch) in text.char_indices().skip(1) { match ch { '[' => depth += 1, ']' => { depth -= 1; if depth == 0 { end = Some(i); break; } } _ => {} } }
      let Some(end) = end else { return none };
      let inner = &text[2..end];
      let mut parts: Vec<String> = Vec::new(); let mut d = 0; let mut cur = String::new();
      for ch in inner.chars() { match ch { '[' => { d += 1; cur.push(ch); } ']' => { d -= 1; cur.push(ch); } ',' if d == 0 => { parts.push(cur.clone()); cur.clear(); } _ => cur.push(ch) } }
      parts.push(cur);
      let mut defs = Vec::new();
      for (i, p) in parts.iter_mut().enumerate() { if p.trim() == ":" || (h >> (9 + i)) & 1 == 0 { continue; } let name = format!("{}{}", prefix, i + 1); defs.push(format!("{} := {}", name, p)); *p = name; }
      if defs.is_empty() { return none; }
      (defs, format!("x[{}]{}", parts.join(","), &text[end + 1..]))
    };
    let (defs_s, stmt) = hoist(&stmt, "i");
    let probe_h = case.input["probe"].as_str().map(|p| hoist(p, "p"));
    let mut defs = defs_s.clone(); if let Some((d, _)) = &probe_h { defs.extend(d.iter().cloned()); }
    // if an index definition itself is not accepted, the literal form is used
    let (stmt, probe_txt, defs) = { let mut t = Sess::new(); if defs.iter().all(|d| t.eval(d).is_ok()) { (stmt, probe_h.map(|p| p.1), defs) } else { (case.input["stmt"].as_str().unwrap().to_string(), case.input["probe"].as_str().map(|p| p.to_string()), vec![]) } };
    let hoisted = !defs.is_empty();
    let fresh = || { let mut s = Sess::new(); s.bind("x", &x, true); s.bind("w", &w, true); s.bind("v", &v, false); for d in defs.iter() { let _ = s.eval(d); } s };

    if let Some(probe) = probe_txt.as_deref() {
      let mut ps = fresh();
      if !ps.eval(probe).is_ok() { return Outcome::trivial().tag(format!("unsupported:{}:{}", form, op)); }
      let mut s = fresh();
      let before = s.snapshot();
      let res = s.eval(&stmt);
      let after = s.snapshot();
      return match res {
        Ev::Ok(val) => Outcome::violated(if after == before { "value-instead-of-error:nothing-written" } else { "value-instead-of-error" }, format!("{} on {} succeeded: x = {}", stmt, x.show(), after.get("x").map(|c| c.show()).unwrap_or_default())),
        Ev::Err(kind, _) => if after != before { Outcome::violated("changed-after-error", format!("{} failed ({}) but symbols changed: {} -> {}", stmt, kind, show_snapshot(&before), show_snapshot(&after))) } else { Outcome::held().tag(format!("err:{}", kind)) },
        Ev::ParseErr(m) => Outcome::inconclusive("harness-parse", format!("{} {}", stmt, m)),
        Ev::Panic(m) => Outcome::violated("panic-escaped", m),
      };
    }

    let pos: Vec<usize> = serde_json::from_value(case.input["pos"].clone()).unwrap();
    let mut s = fresh();
    let before = s.snapshot();
    let res = s.eval(&stmt);
    let arm = s.last_arm();
    let after = s.snapshot();
    match res {
      Ev::ParseErr(m) => Outcome::inconclusive("harness-parse", format!("{} {}", stmt, m)),
      Ev::Panic(m) => Outcome::violated("panic-escaped", m),
      Ev::Err(kind, msg) => {
        if after != before { return Outcome::violated("changed-after-error", format!("{} failed ({}) but symbols changed: {} -> {}", stmt, kind, show_snapshot(&before), show_snapshot(&after))); }
        if st == "wrongkind" { return Outcome::held().tag(format!("err:{}", kind)); }
        Outcome::trivial().tag(format!("unsupported:{}:{}:{}", form, op, st))
      }
      Ev::Ok(_) => {
        if st == "wrongkind" { return Outcome::violated("value-instead-of-error", format!("{} with v = {} on {} succeeded: x = {}", stmt, v.show(), x.show(), after.get("x").map(|c| c.show()).unwrap_or_default())); }
        // frame: everything but x unchanged
        for (name, val) in before.iter() { if name != "x" && after.get(name) != Some(val) { return Outcome::violated("frame-violated", format!("{} changed bystander {}: {} -> {}", stmt, name, val.show(), after.get(name).map(|c| c.show()).unwrap_or_default())); } }
        if after.len() != before.len() { return Outcome::violated("frame-violated", format!("{} changed the set of names", stmt)); }
        let nx = match after.get("x") { Some(n) => n.clone(), None => return Outcome::violated("frame-violated", "x disappeared".into()) };
        if nx.shape() != x.shape() || !nx.is_matrix() { return Outcome::violated("shape-changed", format!("{}: x {} -> {}", stmt, x.show(), nx.show())); }
        if nx.elem_kind() != k { return Outcome::violated("kind-changed", format!("{}: x {} -> {}", stmt, x.show(), nx.show())); }
        let exp = apply_model(&x, &pos, &op, &v, &k);
        let got = nx.elems();
        let addressed: std::collections::BTreeSet<usize> = pos.iter().cloned().collect();
        for (i, e) in exp.iter().enumerate() {
          if !e.admits(&got[i]) {
            let class = if addressed.contains(&i) { if op == "=" { "addressed-wrong" } else { "opassign-wrong" } } else { "unaddressed-changed" };
            return Outcome::violated(class, format!("{} with v = {} on {}: element {} is {} expected {}; x = {}", stmt, v.show(), x.show(), i + 1, got[i].show(), e.show(), nx.show()));
          }
        }
        // read-back
        if op == "=" {
          if let Some(rb) = case.input["readback"].as_str() {
            if let Ev::Ok(rv) = s.eval(rb) {
              let want: Vec<CVal> = pos.iter().enumerate().map(|(i, _)| if v.is_matrix() { v.elems()[i].clone() } else { v.clone() }).collect();
              // duplicates in an index vector with a scalar source still read back the scalar
              if rv.elems() != want { return Outcome::violated("readback-mismatch", format!("after {} reading {} gives {} expected [{}]", stmt, rb, rv.show(), want.iter().map(|c| c.show()).collect::<Vec<_>>().join(" "))); }
            }
          }
        }
        Outcome::held().tag(format!("arm:{}", arm.split_whitespace().next().unwrap_or(""))).tag(if hoisted { "ixform:variables" } else { "ixform:literal" })
      }
    }
  }

  fn extra_evidence(&self, tags: &BTreeMap<String, usize>) -> J {
    json!({"distinct_arms_observed": tags.keys().filter(|k| k.starts_with("arm:")).count(), "unsupported_forms": tags.keys().filter(|k| k.starts_with("unsupported:")).count()})
  }
}

fn run_history(k: &str, x: &CVal, hist: &[J]) -> Outcome {
  let mut s = Sess::new();
  s.bind("x", x, true);
  let w = index_matrix(k, 2, 2, 40);
  s.bind("w", &w, true);
  let mut model = x.clone();
  let mut applied = 0;
  for (t, st) in hist.iter().enumerate() {
    let stmt = st["stmt"].as_str().unwrap();
    let v: CVal = serde_json::from_value(st["v"].clone()).unwrap();
    let pos: Vec<usize> = serde_json::from_value(st["pos"].clone()).unwrap();
    s.bind("v", &v, false);
    let before = s.snapshot();
    match s.eval(stmt) {
      Ev::Ok(_) => {
        let exp = apply_model(&model, &pos, "=", &v, k);
        let after = s.snapshot();
        let nx = after.get("x").cloned().unwrap_or(CVal::Empty);
        if nx.shape() != model.shape() { return Outcome::violated("shape-changed", format!("step {} {}: {} -> {}", t, stmt, model.show(), nx.show())); }
        let got = nx.elems();
        for (i, e) in exp.iter().enumerate() { if !e.admits(&got[i]) { return Outcome::violated("history-wrong", format!("step {} {} (v={}): element {} is {} expected {}; before {} after {}", t, stmt, v.show(), i + 1, got[i].show(), e.show(), model.show(), nx.show())); } }
        if after.get("w") != Some(&w) { return Outcome::violated("frame-violated", format!("step {} {} changed bystander w", t, stmt)); }
        model = nx;
        applied += 1;
      }
      Ev::Err(kind, _) => { let after = s.snapshot(); if after != before { return Outcome::violated("changed-after-error", format!("step {} {} failed ({}) but symbols changed", t, stmt, kind)); } }
      Ev::ParseErr(m) => return Outcome::inconclusive("harness-parse", format!("{} {}", stmt, m)),
      Ev::Panic(m) => return Outcome::violated("panic-escaped", m),
    }
  }
  if applied >= 2 { Outcome::held().tag("history") } else { Outcome::trivial() }
}
