//! C15 Ranges are the arithmetic progressions they denote.

use crate::canon::*;
use crate::fw::*;
use crate::refm::*;
use crate::sess::*;
use serde_json::{json, Value as J};

pub struct C15;

/// exact rational number model for range arithmetic (covers ints, dyadic floats, rationals)
#[derive(Clone, Copy, Debug, PartialEq)]
struct Q { n: i128, d: i128 }
impl Q {
  fn new(n: i128, d: i128) -> Q { let g = gcd(n, d).max(1); let (mut n, mut d) = (n / g, d / g); if d < 0 { n = -n; d = -d; } Q { n, d } }
  fn add(self, o: Q) -> Q { Q::new(self.n * o.d + o.n * self.d, self.d * o.d) }
  fn cmp(self, o: Q) -> std::cmp::Ordering { (self.n * o.d).cmp(&(o.n * self.d)) }
  fn is_zero(self) -> bool { self.n == 0 }
  fn neg(self) -> bool { self.n < 0 }
}
fn gcd(a: i128, b: i128) -> i128 { let (mut a, mut b) = (a.abs(), b.abs()); while b != 0 { let t = a % b; a = b; b = t; } a }

fn q_to_cval(k: &str, q: Q) -> Option<CVal> {
  if is_unsigned(k) { if q.d != 1 || q.n < 0 { return None; } Some(sc_u(k, q.n as u128)) }
  else if is_signed(k) { if q.d != 1 { return None; } Some(sc_i(k, q.n)) }
  else if k == "f64" { Some(sc_f64(q.n as f64 / q.d as f64)) }
  else if k == "f32" { Some(sc_f32(q.n as f32 / q.d as f32)) }
  else if k == "r64" { rat(q.n, q.d) }
  else { None }
}

/// (start, step, end) as exact rationals for a scenario; None if not applicable to the kind
fn scenario(k: &str, sc: &str, rng: &mut Rng) -> Option<(Q, Q, Q)> {
  let int = is_int(k);
  let signed_like = !is_unsigned(k);
  let q = |n: i128| Q::new(n, 1);
  let small = |rng: &mut Rng| rng.range(if signed_like { -20 } else { 0 }, 30) as i128;
  let max = if int { int_max_u(k).min(i128::MAX as u128) as i128 } else { 1 << 20 };
  let min = if int { int_min(k) } else { -(1 << 20) };
  Some(match sc {
    "asc-unit" => { let a = small(rng); (q(a), q(1), q(a + 1 + rng.below(12) as i128)) }
    "asc-step-ongrid" => { let a = small(rng); let s = 2 + rng.below(4) as i128; (q(a), q(s), q(a + s * (1 + rng.below(8) as i128))) }
    "asc-step-offgrid" => { let a = small(rng); let s = 2 + rng.below(4) as i128; (q(a), q(s), q(a + s * (1 + rng.below(8) as i128) + 1 + rng.below((s - 1) as u64) as i128)) }
    "desc-negstep" => { if !signed_like { return None; } let a = small(rng); let s = 1 + rng.below(3) as i128; (q(a), q(-s), q(a - s * (1 + rng.below(8) as i128))) }
    "desc-negstep-offgrid" => { if !signed_like { return None; } let a = small(rng); let s = 2 + rng.below(3) as i128; (q(a), q(-s), q(a - s * (1 + rng.below(8) as i128) - 1)) }
    "single" => { let a = small(rng); (q(a), q(1 + rng.below(3) as i128), q(a)) }
    "wrong-dir" => { let a = small(rng).max(if signed_like { -20 } else { 8 }); (q(a), q(1 + rng.below(3) as i128), q(a - 1 - rng.below(5) as i128)) }
    "wrong-dir-neg" => { if !signed_like { return None; } let a = small(rng); (q(a), q(-(1 + rng.below(3) as i128)), q(a + 1 + rng.below(5) as i128)) }
    "zero-step" => { let a = small(rng); (q(a), q(0), q(a + 3)) }
    "end-at-max" => { if !int || bits(k) == 128 { return None; } let s = 1 + rng.below(3) as i128; (q(max - s * (1 + rng.below(6) as i128)), q(s), q(max)) }
    "start-at-min" => { if !int || bits(k) == 128 { return None; } let s = 1 + rng.below(3) as i128; (q(min), q(s), q(min + s * (1 + rng.below(6) as i128))) }
    "frac-dyadic" => { if int { return None; } let a = Q::new(small(rng) * 4 + rng.below(4) as i128, 4); let s = Q::new(1 + rng.below(7) as i128, 4); let n = 1 + rng.below(8) as i128; let e = a.add(Q::new(s.n * n, s.d)); (a, s, if rng.chance(1, 2) { e } else { e.add(Q::new(1, 8)) }) }
    "frac-dyadic-desc" => { if int { return None; } let a = Q::new(small(rng) * 4 + rng.below(4) as i128, 4); let s = Q::new(-(1 + rng.below(7) as i128), 4); let n = 1 + rng.below(8) as i128; (a, s, a.add(Q::new(s.n * n, s.d))) }
    // spans wider than the kind's positive maximum (the difference of the ends does not fit the kind), 8-bit kinds only
    "span-over-max" => { if !int || bits(k) != 8 || !signed_like { return None; } let s = 1 + rng.below(3) as i128; (q(-70 - rng.below(30) as i128), q(s), q(70 + rng.below(30) as i128)) }
    "full-span" => { if !int || bits(k) != 8 { return None; } (q(min), q(1 + rng.below(2) as i128), q(max)) }
    _ => return None,
  })
}

const SCENARIOS: [&str; 15] = ["span-over-max", "full-span", "asc-unit", "asc-step-ongrid", "asc-step-offgrid", "desc-negstep", "desc-negstep-offgrid", "single", "wrong-dir", "wrong-dir-neg", "zero-step", "end-at-max", "start-at-min", "frac-dyadic", "frac-dyadic-desc"];
const FORMS: [&str; 4] = ["excl", "incl", "step-excl", "step-incl"];

/// Some(terms) if the range can be built, None if it cannot (must be error or empty)
fn progression(a: Q, s: Q, b: Q, incl: bool) -> Option<Vec<Q>> {
  use std::cmp::Ordering::*;
  if s.is_zero() { return None; }
  let dir_ok = if !s.neg() { matches!(a.cmp(b), Less) || (incl && a.cmp(b) == Equal) } else { matches!(a.cmp(b), Greater) || (incl && a.cmp(b) == Equal) };
  if !dir_ok { return None; }
  let mut v = Vec::new();
  let mut t = a;
  loop {
    let c = t.cmp(b);
    let inside = if !s.neg() { c == Less || (incl && c == Equal) } else { c == Greater || (incl && c == Equal) };
    if !inside || v.len() > 300 { break; }
    v.push(t);
    t = t.add(s);
  }
  Some(v)
}

impl Prop for C15 {
  fn id(&self) -> &'static str { "C15" }
  fn rule(&self) -> String { "cells = 13 real numeric kinds x 4 range forms (a..b, a..=b, a..s..b, a..s..=b) x scenario {spans wider than the kind's maximum and the full span of the 8-bit kinds, ascending unit, step on/off grid, descending with negative step on/off grid, single element, wrong direction (both signs), zero step, end at kind max, start at kind min, dyadic fractional steps up and down} with random magnitudes; operands API-bound; plus inexact decimal float steps and use as an index. The result is compared term by term with an exact rational progression. Non-trivial = the range evaluated or was judged against the must-fail/empty clause".into() }
  fn assumptions(&self) -> Vec<String> { vec![
    "an unbuildable range (zero step, wrong direction, a = b exclusive) may be an error or an empty vector".into(),
    "for inexact decimal float steps the element count is not judged and elements are accepted within 1 ulp of a + i*s or of repeated addition".into(),
    "only the element sequence and kind are judged (row/column orientation is free)".into(),
  ] }
  fn floor(&self, tier: Tier) -> usize { if tier == Tier::Quick { 300 } else { 3000 } }
  fn flavours(&self, tier: Tier) -> Vec<&'static str> { if tier == Tier::Thorough { vec!["chk", "rel"] } else { vec!["chk"] } }

  fn gen(&self, tier: Tier, seed: u64) -> Vec<Case> {
    let mut out = Vec::new();
    let draws = if tier == Tier::Quick { 8 } else { 40 };
    for k in REAL_KINDS.iter() {
      for form in FORMS.iter() {
        for sc in SCENARIOS.iter() {
          for d in 0..draws {
            let cell = format!("kind={};form={};sc={}", k, form, sc);
            let id = format!("{};d={}", cell, d);
            let mut rng = Rng::keyed(seed, &id);
            let Some((a, mut s, b)) = scenario(k, sc, &mut rng) else { continue };
            let has_step = form.starts_with("step");
            if !has_step { if *sc == "zero-step" || sc.contains("negstep") || *sc == "wrong-dir-neg" || sc.contains("desc") { continue; } s = Q::new(1, 1); }
            if !has_step && (sc.contains("step-")) { continue; }
            let incl = form.ends_with("incl");
            let (Some(av), Some(sv), Some(bv)) = (q_to_cval(k, a), q_to_cval(k, s), q_to_cval(k, b)) else { continue };
            let exp = progression(a, s, b, incl).map(|v| v.iter().map(|q| q_to_cval(k, *q)).collect::<Option<Vec<CVal>>>());
            let exp = match exp { Some(None) => continue, Some(Some(v)) => json!(v), None => J::Null };
            // operand forms: each of start / step / end is a variable or an inline literal (kernels dispatch on that); the
            // combination rotates with the draw so that every (kind, form) sees all of them across scenarios
            let combo = (d as usize + sc.len() + form.len()) % 8;
            let sp = |bit: usize, name: &str, v: &CVal| -> String { match lit(v) { // (no literal form for negative values, nor for integers beyond 2^53: typed literals pass through f64, a recorded C13 finding)
              Some(l) if combo & (1 << bit) != 0 && !l.starts_with('-') && l.chars().take_while(|c| c.is_ascii_digit()).count() <= 15 => l, _ => name.to_string() } };
            let (sa, ss, sb) = (sp(0, "a", &av), sp(1, "s", &sv), sp(2, "b", &bv));
            // every third draw: operands bound by the generators of an enclosing comprehension (la <- [a], ...), with globals of
            // the same names holding other values; the comprehension then lists exactly the terms of the range
            let local = if d % 3 == 2 { 1 + (d as usize / 3 + sc.len()) % 7 } else { 0 };
            let (sa, ss, sb) = (if local & 1 != 0 { "la".to_string() } else { sa }, if local & 2 != 0 && has_step { "ls".to_string() } else { ss }, if local & 4 != 0 { "lb".to_string() } else { sb });
            let src = match *form { "excl" => format!("{}..{}", sa, sb), "incl" => format!("{}..={}", sa, sb), "step-excl" => format!("{}..{}..{}", sa, ss, sb), _ => format!("{}..{}..={}", sa, ss, sb) };
            let src = if local != 0 { let mut g = String::new(); if src.contains("la") { g.push_str("la <- [a], "); } if src.contains("ls") { g.push_str("ls <- [s], "); } if src.contains("lb") { g.push_str("lb <- [b], "); } if g.is_empty() { src } else { format!("[y | {}y <- {}]", g, src) } } else { src };
            out.push(Case { id, cell, input: json!({"kind": k, "a": av, "s": sv, "b": bv, "src": src, "expect": exp, "mode": "exact"}) });
          }
        }
      }
    }
    // inexact decimal float steps
    for k in ["f64", "f32"] {
      for d in 0..draws * 3 {
        let cell = format!("kind={};form=step-incl;sc=inexact-decimal", k);
        let id = format!("{};d={}", cell, d);
        let mut rng = Rng::keyed(seed, &id);
        let a = rng.range(-30, 30) as f64 / 10.0; let s = (1 + rng.below(9)) as f64 / 10.0; let n = (2 + rng.below(10)) as f64;
        let b = a + s * n;
        let mk = |x: f64| if k == "f64" { sc_f64(x) } else { sc_f32(x as f32) };
        out.push(Case { id, cell, input: json!({"kind": k, "a": mk(a), "s": mk(s), "b": mk(b), "src": "a..s..=b", "expect": J::Null, "mode": "inexact"}) });
      }
    }
    // use as an index: x[a..=b] must select exactly the positions the range value lists
    for d in 0..draws * 4 {
      let cell = "kind=f64;form=index;sc=subscript".to_string();
      let id = format!("{};d={}", cell, d);
      let mut rng = Rng::keyed(seed, &id);
      let n = 3 + rng.below(8) as i128; let a = 1 + rng.below((n - 1) as u64) as i128; let b = a + 1 + rng.below((n - a) as u64) as i128;
      let incl = rng.chance(1, 2);
      out.push(Case { id, cell, input: json!({"kind": "f64", "n": n, "a": a, "b": if incl { b } else { b + 1 }, "incl": incl, "mode": "index"}) });
    }
    out
  }

  /// Miri stage: the kernels this property's constructs dispatch to, driven directly (crate /verif/miri) under the undefined-behaviour interpreter
  fn post_stage(&self, tier: Tier, seed: u64, _self_exe: &str) -> Vec<(Case, Outcome)> { crate::fw::miri_stage("C15", tier, seed, if tier == Tier::Quick { 1 } else { 1 }) }

  fn run(&self, case: &Case, _flavour: &str) -> Outcome {
    if case.cell.starts_with("stage=miri") { return crate::fw::miri_run_one(case); }
    let k = case.input["kind"].as_str().unwrap().to_string();
    let mode = case.input["mode"].as_str().unwrap();
    if mode == "index" {
      let n = case.input["n"].as_i64().unwrap(); let a = case.input["a"].as_i64().unwrap(); let b = case.input["b"].as_i64().unwrap(); let incl = case.input["incl"].as_bool().unwrap();
      let mut s = Sess::new();
      let x = CVal::M("f64".into(), 1, n as usize, (0..n).map(|i| sc_f64(100.0 + i as f64)).collect());
      s.bind("x", &x, false);
      let op = if incl { "..=" } else { ".." };
      let r1 = s.eval(&format!("x[{}{}{}]", a, op, b));
      let r2 = s.eval(&format!("{}{}{}", a, op, b));
      return match (&r1, &r2) {
        (Ev::Ok(sel), Ev::Ok(rv)) => {
          let want: Vec<CVal> = rv.elems().iter().map(|e| match e { CVal::S(_, Sc::F64(bts)) => sc_f64(100.0 + f64::from_bits(*bts) - 1.0), o => o.clone() }).collect();
          let hi = if incl { b } else { b - 1 };
          let model: Vec<CVal> = (a..=hi).map(|i| sc_f64(100.0 + (i - 1) as f64)).collect();
          if sel.elems() != want { Outcome::violated("index-differs-from-range", format!("x[{}{}{}] = {} but the range value is {}", a, op, b, sel.show(), rv.show())) }
          else if sel.elems() != model { Outcome::violated("wrong-element", format!("x[{}{}{}] = {} expected positions {}..={}", a, op, b, sel.show(), a, hi)) }
          else { Outcome::held() }
        }
        _ => Outcome::violated("error-instead-of-value", format!("x[{}{}{}] -> {} ; range -> {}", a, op, b, r1.show(), r2.show())),
      };
    }
    let a: CVal = serde_json::from_value(case.input["a"].clone()).unwrap();
    let sv: CVal = serde_json::from_value(case.input["s"].clone()).unwrap();
    let b: CVal = serde_json::from_value(case.input["b"].clone()).unwrap();
    let src = case.input["src"].as_str().unwrap();
    let mut s = Sess::new();
    s.bind("a", &a, false); s.bind("s", &sv, false); s.bind("b", &b, false);
    // decoy globals named like the generator-bound operands (they must not be looked at)
    if src.starts_with("[y |") { s.bind("la", &b, false); s.bind("ls", &a, false); s.bind("lb", &a, false); }
    let res = s.eval(src);
    let arm = s.last_arm();
    let desc = format!("{} with a={} s={} b={}", src, a.show(), sv.show(), b.show());
    if let Ev::Panic(m) = &res { return Outcome::violated("panic-escaped", format!("{}: {}", desc, m)); }
    if let Ev::ParseErr(m) = &res { return Outcome::inconclusive("harness-parse", m.clone()); }
    if mode == "inexact" {
      return match &res {
        Ev::Ok(v) => {
          let els = v.elems();
          if v.elem_kind() != k { return Outcome::violated("wrong-kind", format!("{} -> {}", desc, v.show())); }
          let ok = if k == "f64" {
            let (a0, s0) = (sc_to_f64(&a), sc_to_f64(&sv)); let mut acc = a0;
            els.iter().enumerate().all(|(i, e)| { let g = sc_to_f64(e); let r = near_f64(g, a0 + i as f64 * s0, 1) || near_f64(g, acc, 1); acc += s0; r })
          } else {
            let (a0, s0) = (sc_to_f64(&a) as f32, sc_to_f64(&sv) as f32); let mut acc = a0;
            els.iter().enumerate().all(|(i, e)| { let g = sc_to_f64(e) as f32; let r = near_f32(g, a0 + i as f32 * s0, 1) || near_f32(g, acc, 1); acc += s0; r })
          };
          if ok && !els.is_empty() && els[0] == a { Outcome::held() } else { Outcome::violated("wrong-element", format!("{} -> {}", desc, v.show())) }
        }
        _ => Outcome::violated("error-instead-of-value", format!("{} -> {}", desc, res.show())),
      };
    }
    let expect: Option<Vec<CVal>> = if case.input["expect"].is_null() { None } else { Some(serde_json::from_value(case.input["expect"].clone()).unwrap()) };
    match (&res, &expect) {
      (Ev::Ok(v), None) => { if v.is_matrix() && v.elems().is_empty() { Outcome::held().tag("empty") } else { Outcome::violated("value-instead-of-error", format!("unbuildable {} -> {}", desc, v.show())) } }
      (_, None) => Outcome::held().tag("rejected"),
      (Ev::Ok(v), Some(want)) => {
        let els = v.elems();
        let (r, c) = v.shape();
        if v.is_matrix() && !(r == 1 || c == 1) { return Outcome::violated("wrong-shape", format!("{} -> {}", desc, v.show())); }
        if els.len() != want.len() { return Outcome::violated(if els.len() < want.len() { "missing-element" } else { "extra-element" }, format!("{} -> {} expected [{}]", desc, v.show(), want.iter().map(|x| x.show()).collect::<Vec<_>>().join(" "))); }
        if &els != want { return Outcome::violated("wrong-element", format!("{} -> {} expected [{}]", desc, v.show(), want.iter().map(|x| x.show()).collect::<Vec<_>>().join(" "))); }
        if v.elem_kind() != k { return Outcome::violated("wrong-kind", format!("{} -> {}", desc, v.show())); }
        Outcome::held().tag(format!("arm:{}", arm.split_whitespace().next().unwrap_or("")))
      }
      (Ev::Err(kind, msg), Some(want)) => {
        let class = if kind.starts_with("UnhandledFunctionArgument") { "unsupported-kind-form" } else if msg.contains("overflow") { "error-instead-of-value:overflow" } else { "error-instead-of-value" };
        Outcome::violated(class, format!("buildable {} failed: {} {} (expected {} terms)", desc, kind, msg.chars().take(90).collect::<String>(), want.len()))
      }
      _ => unreachable!(),
    }
  }
}

fn sc_to_f64(c: &CVal) -> f64 { match c { CVal::S(_, Sc::F64(b)) => f64::from_bits(*b), CVal::S(_, Sc::F32(b)) => f32::from_bits(*b) as f64, _ => f64::NAN } }
