//! C09 The parser is total: any text yields a tree or a located error report.

use crate::corpus;
use crate::fw::*;
use crate::genprog::*;
use crate::sess::*;
use mech_core::*;
use mech_syntax::parser;
use mech_syntax::{graphemes, ParserErrorReport, TextFormatter};
use serde_json::{json, Value as J};

pub struct C09;

const ALPHABET: [&str; 96] = ["x", "y", "foo", "a1", "1", "2", "10", "0", "3.5", "0x1F", "1e3", "2/3", "4i", "u8", "f64", " ", " ", "  ", "\n", "\n", "\r\n", "\t", ":=", "=", "+=", "+", "-", "*", "/", "^", "**", "%", "==", "!=", "<", "<=", ">", ">=", "&&", "||", "!", "'", "(", ")", "[", "]", "{", "}", "<", ">", "|", ",", ";", ":", "::", ".", "..", "..=", "...", "~", "#", "@", "?", "=>", "->", "<-", "_", "\"", "\"a b\"", "```", "```mech", "~~~", "--", "//", "%%", "├", "└", "│", "╭", "╯", "─", "✓", "✗", "⊻", "∈", "∪", "⋈", "Δ", "·", "…", "🙂", "é", "e\u{301}", "👨‍👩‍👧", "\u{feff}", "\u{200f}"];

/// Mechdown vocabulary (static, collected from the tag()/leaf! literals and keyword strings of src/syntax/src/mechdown.rs and base.rs)
const MD_ALPHABET: [&str; 120] = ["$$", "$", "$$ ", "```", "```\n", "~~~\n", "```ebnf\n", "```mermaid\n", "```mech\n", "```mech:disabled\n", "```mech:hidden\n", "```mech:ex1\n", "```mec\n", "```mika\n", "```python\n", "```latex\n", "```tex\n", "```math\n", "```equation\n", "```diagram\n", "```chart\n", "```prompt\n", "```output\n",
  "[", "](", ")", "![", "[^1]", "[^1]:", "[a]()", "[a](b)", "![a](b)", "{{", "}}", "{", "}", "%%", "%% ", ">", "> ", "(a) ", "(1) ", "1. ", "2) ", "- ", "* ", "+ ", "- [ ] ", "- [x] ", "**", "__", "~~", "^^", "``", "`", "`x`", "|", "|---|", "| a | b |\n", "|:--:|---|\n", "---", "===", "\n===============\n", "\n---------------\n", "\n", "\n\n", "\r\n", "  ", "\t",
  "(!)>", "(i)>", "(?)>", "(*)>", "(x)>", ">>", "<<", "?>", "@", "#", "## ", "### ", "<img>", "https://x.y", "«", "»", "⸢", "⸥", "(╭⦿╯", "╭", "╯", "⦿", "⸌", "⸍", "ᓀ", "ᓂ", "ᗢ", "Ɔ∞", "∞C", "-◡", "◡-", "›⌣", "⌣‹", "›─", "─‹",
  "x = ;", "x := 1", "term", "abstract:", "author:", "date:", "kicker:", "subtitle:", "hero:", "{eq:1}", "{fig:1}", "{@", "Fig 1.", "word", "é", "🙂"];
const FENCE_INFO: [&str; 30] = ["ebnf", "mermaid", "mech", "mech:disabled", "mech:hidden", "mech:a", "mec", "mec:b", "mika", "python", "latex", "tex", "math", "equation", "eq", "diagram", "chart", "prompt", "output", "table", "figures", "list", "footnote", "citation", "abstract", "section", "img", "float", "🤖", ""];

fn mutate(src: &str, rng: &mut Rng) -> String {
  let mut g: Vec<char> = src.chars().collect();
  let n = 1 + rng.below(3);
  for _ in 0..n {
    if g.is_empty() { break; }
    let i = rng.below(g.len() as u64) as usize;
    match rng.below(9) {
      0 => { g.remove(i); }
      1 => { let c = g[i]; g.insert(i, c); }
      2 => { let j = rng.below(g.len() as u64) as usize; g.swap(i, j); }
      3 => { g.insert(i, *rng.pick(&['[', ']', '(', ')', '{', '}', '|', '"', '<', '>'])); }
      4 => { g.truncate(i); }
      5 => { let l = (1 + rng.below(6) as usize).min(g.len() - i); g.drain(i..i + l); }
      6 => { let t: Vec<char> = (if rng.chance(1, 2) { *rng.pick(&ALPHABET) } else { *rng.pick(&MD_ALPHABET) }).chars().collect(); for (k, c) in t.iter().enumerate() { g.insert(i + k, *c); } }
      7 => { g.insert(i, '\n'); }
      _ => { let l = (1 + rng.below(8) as usize).min(g.len() - i); let seg: Vec<char> = g[i..i + l].to_vec(); let at = rng.below(g.len() as u64) as usize; for (k, c) in seg.iter().enumerate() { g.insert(at + k, *c); } }
    }
  }
  g.into_iter().collect()
}

fn line_widths(text: &str) -> Vec<usize> {
  let gs = graphemes::init_source(text);
  let mut w = vec![0usize];
  for (i, g) in gs.iter().enumerate() { if graphemes::is_new_line(g) { if i + 1 < gs.len() { w.push(0); } } else { *w.last_mut().unwrap() += graphemes::width(g); } }
  w
}

/// Debug rendering of a parse outcome (used for determinism comparison)
fn outcome_string(r: &Result<MResult<mech_core::nodes::Program>, String>) -> String {
  match r { Ok(Ok(t)) => format!("OK {:?}", t), Ok(Err(e)) => format!("ERR {:?}", e), Err(p) => format!("PANIC {}", p) }
}

fn fnv(s: &str) -> String { let mut h: u64 = 0xcbf29ce484222325; for b in s.bytes() { h ^= b as u64; h = h.wrapping_mul(0x100000001b3); } format!("{:016x}", h) }

impl Prop for C09 {
  fn id(&self) -> &'static str { "C09" }
  fn rule(&self) -> String { "inputs: (i) random strings of 1-60 tokens over the Mech token alphabet (operators, brackets, fence sigils, box-drawing and set/table operators, digits, identifiers, quotes, CR/LF/tab, combining sequences, ZWJ emoji, BOM, RTL mark); (ii) the 632 corpus programs and generated programs with 1-3 mutations (delete / duplicate / swap / insert bracket / truncate / splice); (iii) every .mec document in the repository: all line-boundary prefixes plus seeded inner cuts; (iv) valid generated programs with a unique marker identifier per statement; (v) random strings over a Mechdown vocabulary (fence openers for every info string, $$, links, images, footnotes, lists, checkboxes, quotes, callouts, tables, rules, Mika faces), fenced blocks of each of 30 info strings x both sigils with token bodies, and small documents with 1-3 mutations; (vii) Mika faces: every left arm x right arm in micro / mini / inner-arm forms and every nose; (vi) structured degenerate forms: front matter keys x value forms (text, image, figure table, link, empty, fence, ...) and 36 well-formed and malformed patterns in every pattern position (match arm, function arm, comprehension generator, state pattern, guarded arm). Oracle per input: no panic escapes parser::parse, the result is a tree or a ParserErrorReport with >= 1 context whose ranges lie inside the input, TextFormatter::format_error returns, two parses give the same Debug rendering (also across processes through digests), an accepted generated program contains every marker, and a parse before and after an interpreter session agree. Hook monitors: LoopGuard (three identical consecutive cursors in a hand-written loop) and the step budget. Non-trivial = every input is".into() }
  fn assumptions(&self) -> Vec<String> { vec![
    "range bounds: 1 <= row <= lines (+1 only if the text ends in a line break), 1 <= col <= width(row)+2, start <= end (ParseError::new sets end.col = start.col + 1)".into(),
    "an input that needs more than the logical step budget (2*10^7 attempted consumptions in quick, 2*10^8 in thorough) is inconclusive, never a verdict".into(),
  ] }
  fn floor(&self, tier: Tier) -> usize { if tier == Tier::Quick { 3000 } else { 30000 } }
  fn flavours(&self, tier: Tier) -> Vec<&'static str> { if tier == Tier::Thorough { vec!["chk", "rel"] } else { vec!["chk"] } }
  fn replicas(&self, _tier: Tier) -> usize { 2 }

  fn gen(&self, tier: Tier, seed: u64) -> Vec<Case> {
    let mut out = Vec::new();
    let scale = if tier == Tier::Quick { 1 } else { 12 };
    // (i) random token strings
    for i in 0..1500 * scale {
      let mut rng = Rng::keyed(seed, &format!("c09rand{}", i));
      let n = 1 + rng.below(60) as usize;
      let mut s = String::new();
      let mut depth = 0;
      for _ in 0..n { let t = *rng.pick(&ALPHABET); if matches!(t, "(" | "[" | "{") { depth += 1; if depth > 4 { continue; } } s.push_str(t); }
      out.push(Case { id: format!("random;n={}", i), cell: "random-tokens".into(), input: json!({"text": s}) });
    }
    // single tokens and pairs (tiny inputs)
    for (i, a) in ALPHABET.iter().enumerate() { out.push(Case { id: format!("tiny;a={}", i), cell: "tiny".into(), input: json!({"text": a}) }); }
    for i in 0..300 * scale { let mut rng = Rng::keyed(seed, &format!("c09pair{}", i)); let s = format!("{}{}{}", rng.pick(&ALPHABET), rng.pick(&ALPHABET), rng.pick(&ALPHABET)); out.push(Case { id: format!("tiny;t={}", i), cell: "tiny".into(), input: json!({"text": s}) }); }
    // (ii) corpus programs, intact and mutated
    let progs = corpus::test_programs();
    for (i, (name, src)) in progs.iter().enumerate() {
      out.push(Case { id: format!("corpus;name={}", name), cell: "corpus-intact".into(), input: json!({"text": src}) });
      for m in 0..(2 * scale) { let mut rng = Rng::keyed(seed, &format!("c09mut{}.{}", i, m)); out.push(Case { id: format!("mutated;name={};m={}", name, m), cell: "corpus-mutated".into(), input: json!({"text": mutate(src, &mut rng)}) }); }
    }
    // (iv) generated valid programs with markers, and mutated ones
    for i in 0..400 * scale {
      let mut rng = Rng::keyed(seed, &format!("c09gen{}", i));
      let len = 1 + rng.below(10) as usize;
      let p = random_program(&mut rng, len, true, true);
      let markers: Vec<String> = p.stmts.iter().filter_map(|s| s.trim_start_matches('~').split(|c: char| !c.is_alphanumeric()).next().map(|x| x.to_string())).filter(|m| m.starts_with('v')).collect();
      out.push(Case { id: format!("generated;n={}", i), cell: "generated-valid".into(), input: json!({"text": p.text(), "markers": markers}) });
      out.push(Case { id: format!("generated-mutated;n={}", i), cell: "generated-mutated".into(), input: json!({"text": mutate(&p.text(), &mut rng)}) });
    }
    // (v) Mechdown token strings, and fenced blocks of every info string with token bodies
    for i in 0..1200 * scale {
      let mut rng = Rng::keyed(seed, &format!("c09md{}", i));
      let n = 1 + rng.below(if i % 4 == 0 { 4 } else { 40 }) as usize;
      let mut s = String::new();
      for _ in 0..n { if rng.chance(2, 3) { s.push_str(*rng.pick(&MD_ALPHABET)); } else { s.push_str(*rng.pick(&ALPHABET)); } }
      out.push(Case { id: format!("md-tokens;n={}", i), cell: "md-tokens".into(), input: json!({"text": s}) });
    }
    for (ii, info) in FENCE_INFO.iter().enumerate() {
      for sigil in ["```", "~~~"] {
        for j in 0..(6 * scale) {
          let mut rng = Rng::keyed(seed, &format!("c09fence{}{}{}", ii, sigil, j));
          let n = rng.below(12) as usize;
          let mut body = String::new();
          for _ in 0..n { if rng.chance(1, 2) { body.push_str(*rng.pick(&MD_ALPHABET)); } else { body.push_str(*rng.pick(&ALPHABET)); } if rng.chance(1, 4) { body.push('\n'); } }
          let close = match rng.below(5) { 0 => String::new(), 1 => format!("\n{}", sigil), _ => format!("\n{}\n", sigil) };
          let pre = if rng.chance(1, 3) { "para\n\n" } else { "" };
          out.push(Case { id: format!("fence;info={};sigil={};j={}", ii, sigil, j), cell: "md-fence".into(), input: json!({"text": format!("{}{}{}\n{}{}", pre, sigil, info, body, close)}) });
        }
      }
    }
    // (vi) structured degenerate forms: front matter (every key x value forms) and patterns in every pattern position
    let fm_keys = ["abstract", "author", "date", "kicker", "subtitle", "hero", "summary", "title", "unknown"];
    let fm_vals = ["some text", "", "![a](b.png)", "| ![a](b.png) |", "| ![a](b.png) | ![c](d.png) |", "|![a](b.png)|", "[l](u)", "2024-01-01", "| a | b |", "```", "$$x$$", "%% c", "  ", "|", "| |", "![a]()", "![](b)"];
    for (ki, k) in fm_keys.iter().enumerate() { for (vi, v) in fm_vals.iter().enumerate() {
      for (ti, title) in ["Title\n=====\n\n", "Title\n=====\n", ""].iter().enumerate() {
        out.push(Case { id: format!("frontmatter;k={};v={};t={}", ki, vi, ti), cell: "md-frontmatter".into(), input: json!({"text": format!("{}{}: {}\n\nbody text\n", title, k, v)}) });
      }
      if vi % 4 == 0 { let k2 = fm_keys[(ki + 3) % fm_keys.len()]; out.push(Case { id: format!("frontmatter2;k={};v={}", ki, vi), cell: "md-frontmatter".into(), input: json!({"text": format!("Title\n=====\n\n{}: {}\n{}: {}\n\nbody\n", k, v, k2, fm_vals[(vi + 5) % fm_vals.len()])}) }); }
    } }
    let pats = ["[a |]", "[a, b | ]", "[| a]", "[a | b]", "[a …]", "[… a]", "[a … b]", "[…]", "[]", "[a, | b]", "[a b | c]", "[a | b | c]", "[1 | ]", "(a, )", "(, a)", "()", "(a)", ":a()", ":a(b,)", ":a(", "a, ", ", a", "*", "_", "1..", "..1", "{a}", "{a: }", "{a: b}", "[a |", "[a …", "a |", "| a", "…", "[… | a]", "[a, …, b]"];
    for (pi, pat) in pats.iter().enumerate() {
      for (fi, src) in [format!("r := x?\n  | {} => 1\n  | * => 2.", pat), format!("x? | {} => 1 | * => 2.", pat), format!("f(x<u64>) => <u64>\n  | {} => 1\n  | * => 2.", pat), format!("r := [x | {} <- y]", pat), format!("r := {{x | {} <- y}}", pat), format!("#M(n) -> :A(n)\n  :A({}) -> :B(n)\n  :B(n) => n.", pat), format!("r := x?\n  | {}, x > 1 => 1\n  | * => 2.", pat)].iter().enumerate() {
        out.push(Case { id: format!("pattern;p={};f={}", pi, fi), cell: "pattern-forms".into(), input: json!({"text": src}) });
      }
    }
    // (vii) Mika faces: every left arm x every right arm (micro and mini forms, arms inside the parentheses), every nose
    let larms = ["Ɔ∞", "›─", "›⌣", "·¬", "-◡", "ᗑ", "ᕦ", "~", "⌣", "╭", "⸌", "⸸", "─", "ᓂ", "ᓇ", "╰"];
    let rarms = ["∞C", "─‹", "⌣‹", "⌐·", "◡-", "ᗑ", "ᕤ", "~", "⌣", "╮", "⸍", "ᗢ", "─", "ᓀ", "ᓄ", "╯"];
    let noses = ["⦿", "◯", "⊕", "∘", "⦾", "⊖", "⦵", "⊗", "⏺", "⍜"];
    for (li, l) in larms.iter().enumerate() { for (ri, r) in rarms.iter().enumerate() {
      let nose = noses[(li + ri) % noses.len()];
      for (fi, text) in [format!("{}{}{}", l, nose, r), format!("{}(˙{}˙){}", l, nose, r), format!("({}˙{}˙{})", r, nose, l), format!("{}{}{} ⸢hello⸥", l, nose, r), format!("para\n\n{}(˙{}˙){}\n", l, nose, r)].iter().enumerate() {
        if fi >= 3 && (li + ri) % 4 != 0 { continue; }
        out.push(Case { id: format!("mika;l={};r={};f={}", li, ri, fi), cell: "md-mika".into(), input: json!({"text": text}) });
      }
    } }
    for (ni, n) in noses.iter().enumerate() { for (fi, text) in [format!("╭{}╮", n), format!("({}˙{}˙)", "", n), format!("(˙{}", n), format!("╭{}", n), format!("{}╮", n)].iter().enumerate() { out.push(Case { id: format!("mika-nose;n={};f={}", ni, fi), cell: "md-mika".into(), input: json!({"text": text}) }); } }
    // (viii) numeric literal spellings: mantissa x exponent x suffix, in code, matrix and prose positions
    let mants = ["1", "1.0", ".5", "6.02", "0x1F", "0b101", "0o17", "1_000", "1.", "00", "1/2", "0.0", "12.5", "1.0.0"];
    let exps = ["", "e3", "E3", "e-3", "e+3", "e", "e3.5", "e-", "E+", "e03"];
    let sufs = ["", "u8", "f32", "i8", "i", "j", "x", "<u8>", "u", "_", "%", "f64", "u128", "i64x", "é"];
    for (mi, m) in mants.iter().enumerate() { for (ei, e) in exps.iter().enumerate() { for (si, su) in sufs.iter().enumerate() {
      let lit = format!("{}{}{}", m, e, su);
      let h = Rng::keyed(seed, &format!("c09num{}.{}.{}", mi, ei, si)).next();
      let ctxs = [format!("x := {}", lit), format!("x := [{} 2]", lit), format!("x := -{} + 1", lit), format!("The value {{{}}} is inline.\n", lit), format!("x := {{{}, 2}}", lit), format!("f({})", lit), format!("x := 1..{}", lit), format!("x<f64> := {}\ny := 2", lit)];
      let picks: Vec<usize> = if tier == Tier::Quick { vec![0, 1 + (h % 7) as usize] } else { (0..ctxs.len()).collect() };
      for ci in picks { out.push(Case { id: format!("numlit;m={};e={};s={};c={}", mi, ei, si, ci), cell: "numeric-literal-forms".into(), input: json!({"text": ctxs[ci]}) }); }
    } } }
    // (ix) accounting: a marker word placed after an inline-markup opener inside comments and prose. If the text parses, the tree must still
    // contain the marker (the tree accounts for the entire input); the twin without the opener shows that this position keeps its text at all.
    let openers = ["[", "<", "*", "_", "~", "|", "{", "`", "![", "[^", "$$", "**", "!!", "(", "«", "%%", "@", "#", "]", ")", "}", "[a](", "{{", "^", "\"", "'", "=>", ":=", "--", "//", "<<", ">>", "⸢", "(!)>", "?>"];
    let frames: [(&str, &str); 14] = [("x := 1 -- note ", " tail"), ("x := 1 // note ", " tail"), ("-- note ", " tail\nx := 1"), ("// note ", " tail\nx := 1"), ("Some prose ", " and more.\n"), ("- item ", " text\n- second\n"), ("> quoted ", " text\n"), ("Title\n=====\n\nPara ", " end.\n"), ("## Heading ", " more\n\ntext\n"), ("| a | b |\n|---|---|\n| c ", " | d |\n"), ("x := 1\ny := 2 -- about y ", "\nz := 3"), ("```mech\nx := 1 -- in fence ", "\n```\n"), ("1. first ", " text\n2. second\n"), ("(i)> info ", " text\n")];
    for (fi, (pre, post)) in frames.iter().enumerate() { for (oi, op) in openers.iter().enumerate() {
      for (vi, (a, b)) in [(" ", " "), ("", " "), (" ", "")].iter().enumerate() {
        if tier == Tier::Quick && vi > 0 && (fi + oi) % 3 != 0 { continue; }
        let marker = format!("zq{}m{}", fi, oi);
        let text = format!("{}{}{}{}{}{}", pre, a, op, b, marker, post);
        let twin = format!("{}{}{}", pre, marker, post);
        out.push(Case { id: format!("account;f={};o={};v={}", fi, oi, vi), cell: "accounting-markup".into(), input: json!({"text": text, "markers": [marker], "twin": twin}) });
      }
    } }
    // (x) texts that END right after a construct (no trailing character, a blank, a line break): calls, definitions, open patterns,
    // open brackets, operators; and every kind spelling in every kind position
    let enders = ["f()", "foo(x<u8>)", "x := f()", "x := foo(a, b)", "x := foo(a: 1)", "f(x<f64>) => <f64>", "r := x?", "r := x?\n  | 1 => 2", "[a | [b", "{x | [a", "x := 3\ny := x ? | [1, 2", "x := [1 2", "x := (1 +", "x :=", "x =", "x +=", "~x", "x := 1 ..", "x := 1..=", "#M(n) ->", "#M(n) -> :A(n)\n  :A(n) =>", "x := a.", "x := a[", "x := a{", "x<", "x<u8", "x<u8>", "<t> :=", "<t> := :a |", "x := |a<u8>|", "x := {a:", "x := \"abc", "-- c", "// c", "```", "```mech\nx := 1", "x := 1 --", "f(x) = y :=", "f(x<u8>) = y<u8> :=\n    y := x", "x := -", "x := !", "x := a'", "x := [a'", "(x, y) :=", "x := (1, ", "x := {1, ", "x := 1;", "x := 1; ", "[x | x <-", "[x | x <- y,", "x := a ?", "r := (a, b)?\n  | (1, y) =>"];
    for (ei, e) in enders.iter().enumerate() { for (ti, tail) in ["", " ", "\n", " \n", "\n\n", "\t", "\r\n", "  "].iter().enumerate() {
      out.push(Case { id: format!("ends-with;e={};t={}", ei, ti), cell: "text-ends-after-construct".into(), input: json!({"text": format!("{}{}", e, tail)}) });
    } }
    let kinds = ["*", "_", "u8", "[*]", "[_]", "{*}", "{_}", "(*,_)", "(u8,*)", "[*]:2,3", "*?", "_?", "{u8:*}", "{*:u8}", ":a", "[u8]:*,2", "[u8]:_"];
    for (ki, k) in kinds.iter().enumerate() {
      for (fi, src) in [format!("f(x<f64>) => <{}>\n  | 1 => 2\n  | * => 3.", k), format!("f(x<{}>) => <f64>\n  | 1 => 2\n  | * => 3.", k), format!("f(x<{}>) = y<{}> :=\n    y := x.", k, k), format!("x<{}> := 1", k), format!("y := x<{}>", k), format!("<t> := <{}>", k), format!("#M(n<{}>) => <{}>\n  ├ :A(n<{}>)\n  └ :Done(n<{}>).", k, k, k, k), format!("x := |a<{}> b<u8>| 1 2 |", k), format!("x := []<{}>", k)].iter().enumerate() {
        out.push(Case { id: format!("kind-spelling;k={};f={}", ki, fi), cell: "kind-spellings".into(), input: json!({"text": src}) });
      }
    }
    // documents with 1-3 mutations
    for (path, text) in corpus::mec_files(4 * 1024) {
      for m in 0..(if tier == Tier::Quick { 2 } else { 16 }) { let mut rng = Rng::keyed(seed, &format!("c09docmut{}{}", path, m)); out.push(Case { id: format!("docmut;path={};m={}", path, m), cell: "document-mutated".into(), input: json!({"text": mutate(&text, &mut rng)}) }); }
    }
    // (iii) documents: prefixes
    for (path, text) in corpus::mec_files(if tier == Tier::Quick { 6 * 1024 } else { 64 * 1024 }) {
      let lines: Vec<usize> = text.char_indices().filter(|(_, c)| *c == '\n').map(|(i, _)| i + 1).collect();
      let mut rng = Rng::keyed(seed, &format!("c09file{}", path));
      // parse cost grows faster than linearly with document size: all line prefixes only for small documents, a sample otherwise
      let (nl, nr) = if tier == Tier::Quick { (6, 3) } else if text.len() <= 4 * 1024 { (usize::MAX, 40) } else if text.len() <= 16 * 1024 { (60, 20) } else { (6, 4) };
      let mut cuts: Vec<usize> = { let mut l = lines.clone(); if l.len() > nl { rng.shuffle(&mut l); l.truncate(nl); } l };
      for _ in 0..nr { let mut c = rng.below(text.len() as u64 + 1) as usize; while !text.is_char_boundary(c) { c -= 1; } cuts.push(c); }
      cuts.push(text.len());
      cuts.sort(); cuts.dedup();
      for c in cuts { out.push(Case { id: format!("file;path={};cut={}", path, c), cell: "document-prefix".into(), input: json!({"text": &text[..c]}) }); }
    }
    out
  }

  /// purity stage (thorough): parse a batch of inputs under strace between two marker syscalls; any file or network
  /// system call between the markers refutes "parsing reads no files"
  fn post_stage(&self, tier: Tier, seed: u64, self_exe: &str) -> Vec<(Case, Outcome)> {
    if tier != Tier::Thorough || self_exe.is_empty() { return vec![]; }
    let dir = format!("{}/work/c09purity-{}", crate::corpus::verif_dir(), std::process::id());
    let _ = std::fs::create_dir_all(&dir);
    let log = format!("{}/strace.log", dir);
    let st = std::process::Command::new("strace").args(["-f", "-e", "trace=%file,%network", "-o", &log, self_exe, "c09purity", &seed.to_string()]).stdout(std::process::Stdio::null()).stderr(std::process::Stdio::null()).status();
    let case = Case { id: "purity;strace".into(), cell: "purity".into(), input: json!({"seed": seed}) };
    let out = match (st, std::fs::read_to_string(&log)) {
      (Ok(s), Ok(txt)) if s.success() => {
        let mut inside = false; let mut offending = Vec::new(); let mut seen_begin = false; let mut seen_end = false; let mut total = 0usize;
        for l in txt.lines() {
          total += 1;
          if l.contains("/verif-mark-begin") { inside = true; seen_begin = true; continue; }
          if l.contains("/verif-mark-end") { inside = false; seen_end = true; continue; }
          if inside && !l.contains("+++") && !l.contains("---") { offending.push(l.to_string()); }
        }
        if !seen_begin || !seen_end { Outcome::inconclusive("purity-markers-missing", txt.chars().take(300).collect()) }
        else if offending.is_empty() { Outcome::held().tag("purity:no-file-or-network-syscalls").num("strace_lines", total as f64) }
        else { Outcome::violated("syscall-during-parse", format!("file/network system calls while parsing: {:?}", offending.iter().take(5).collect::<Vec<_>>())) }
      }
      (st, _) => Outcome::inconclusive("strace-failed", format!("{:?}", st.map(|s| s.code()))),
    };
    let _ = std::fs::remove_dir_all(&dir);
    vec![(case, out)]
  }

  fn run(&self, case: &Case, flavour: &str) -> Outcome {
    let text = case.input["text"].as_str().unwrap();
    let budget: u64 = if flavour == "chk" && case.id.len() > 0 { 20_000_000 } else { 200_000_000 };
    let shown = || text.chars().take(300).collect::<String>().replace('\n', "\\n");
    mech_syntax::verif::reset(budget);
    let r1 = guarded(|| parser::parse(text));
    let steps = mech_syntax::verif::steps();
    let ticks = mech_syntax::verif::loop_ticks();
    mech_syntax::verif::reset(u64::MAX);
    if let Err(p) = &r1 {
      if p.contains("VERIF-BUDGET") { return Outcome::inconclusive("step-budget", format!("`{}`", shown())).num("steps", steps as f64); }
      if p.contains("VERIF-NO-PROGRESS") { return Outcome::violated(&format!("no-progress:{}", p.split("site=").nth(1).unwrap_or("").split_whitespace().next().unwrap_or("")), format!("`{}`: {}", shown(), p)); }
      let site = p.rsplit(" @ ").next().unwrap_or("").rsplit('/').next().unwrap_or("").to_string();
      return Outcome::violated(&format!("parser-panic:{}", site), format!("`{}`: {}", shown(), p));
    }
    // second parse (determinism), optionally after an interpreter session
    if case.id.len() % 8 == 0 { let mut s = Sess::new(); let _ = s.eval("q := [1 2 3] + 1"); let _ = s.eval("~w := 2; w += 1"); }
    let r2 = guarded(|| parser::parse(text));
    let (o1, o2) = (outcome_string(&r1), outcome_string(&r2));
    if o1 != o2 { return Outcome::violated("nondeterministic", format!("`{}` parsed twice gives different outcomes", shown())); }
    let widths = line_widths(text);
    let mut o = match r1.unwrap() {
      Ok(tree) => {
        if let Some(ms) = case.input.get("markers").and_then(|m| m.as_array()) {
          let dump = format!("{:?}", tree);
          if let Some(tw) = case.input.get("twin").and_then(|t| t.as_str()) {
            // the position must keep its text on the benign twin, otherwise nothing can be said about the hostile variant
            let keeps = match guarded(|| parser::parse(tw)) { Ok(Ok(t2)) => { let d2 = format!("{:?}", t2); ms.iter().all(|m| { let m = m.as_str().unwrap(); let chars: String = m.chars().map(|c| format!("\"{}\", ", c)).collect(); d2.contains(chars.trim_end_matches(", ")) || d2.contains(m) }) } _ => false };
            if !keeps { return Outcome::trivial().tag("accounting:twin-does-not-keep-text"); }
          }
          for m in ms { let m = m.as_str().unwrap(); let chars: String = m.chars().map(|c| format!("\"{}\", ", c)).collect(); if !dump.contains(chars.trim_end_matches(", ")) && !dump.contains(m) { return Outcome::violated("input-dropped", format!("`{}` parsed to a tree that does not contain the statement defining {}", shown(), m)); } }
        }
        Outcome::held().tag("ok")
      }
      Err(e) => {
        let Some(rep) = e.kind_as::<ParserErrorReport>() else { return Outcome::violated("not-an-error-report", format!("`{}`: parse failed with {}", shown(), e.kind_name())); };
        if rep.1.is_empty() { return Outcome::violated("empty-error-report", format!("`{}`", shown())); }
        for ctx in rep.1.iter() {
          for r in std::iter::once(&ctx.cause_rng).chain(ctx.annotation_rngs.iter()) {
            // a position on the line after the last one exists only if the text ends in a line break
            let max_row = widths.len() + if text.is_empty() || text.ends_with('\n') || text.ends_with('\r') { 1 } else { 0 };
            let ok_loc = |l: &mech_core::nodes::SourceLocation| l.row >= 1 && l.row <= max_row && l.col >= 1 && l.col <= widths.get(l.row - 1).cloned().unwrap_or(0) + 2;
            let ordered = (r.start.row, r.start.col) <= (r.end.row, r.end.col);
            let uninit = r.start.row == 0 && r.start.col == 0 && r.end.row == 0 && r.end.col == 0;
            if !ok_loc(&r.start) || !ok_loc(&r.end) || !ordered { return Outcome::violated(if uninit { "range-uninitialised" } else { "range-outside-input" }, format!("`{}`: report range {}:{}..{}:{} but the text has {} line(s) of widths {:?}", shown(), r.start.row, r.start.col, r.end.row, r.end.col, widths.len(), widths.iter().take(12).collect::<Vec<_>>())); }
          }
        }
        match guarded(|| TextFormatter::new(text).format_error(rep)) { Ok(_) => {}, Err(p) => { let site = p.rsplit(" @ ").next().unwrap_or("").rsplit('/').next().unwrap_or("").to_string(); return Outcome::violated(&format!("format-error-panic:{}", site), format!("`{}`: format_error on the parser's own report panicked: {}", shown(), p)); } }
        Outcome::held().tag("error-report")
      }
    };
    o.digest = Some(fnv(&o1));
    o.num("steps", steps as f64).num("loop_ticks", ticks as f64)
  }
}

/// body of `mv c09purity <seed>`: everything is loaded first, then only parsing happens between the two marker syscalls
pub fn purity_main(seed: u64) {
  install_quiet_panic_hook();
  let mut inputs: Vec<String> = corpus::test_programs().into_iter().map(|x| x.1).collect();
  for (_, t) in corpus::mec_files(8 * 1024) { inputs.push(t); }
  let mut rng = Rng::keyed(seed, "purity");
  for i in 0..300 { let s = inputs[rng.below(inputs.len() as u64) as usize].clone(); inputs.push(mutate(&s, &mut rng)); let _ = i; }
  // warm up lazily initialised state (allocator arenas, grapheme tables) before the window
  let _ = guarded(|| parser::parse("x := 1"));
  let b = std::ffi::CString::new("/verif-mark-begin").unwrap(); let e = std::ffi::CString::new("/verif-mark-end").unwrap();
  unsafe { libc::access(b.as_ptr(), 0); }
  let mut n = 0usize;
  for t in inputs.iter() { mech_syntax::verif::reset(20_000_000); let r = guarded(|| parser::parse(t)); if let Ok(Err(e)) = &r { if let Some(rep) = e.kind_as::<ParserErrorReport>() { let _ = guarded(|| TextFormatter::new(t).format_error(rep)); } } n += 1; }
  unsafe { libc::access(e.as_ptr(), 0); }
  mech_syntax::verif::reset(u64::MAX);
  println!("parsed {}", n);
}
