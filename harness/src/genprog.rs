//! Typed program generator shared by C06, C07, C10, C19 (and as seed material for C08/C09).
//! Every generated statement is tagged with the construct it exercises so that failures can be attributed.

use crate::fw::Rng;
use std::collections::BTreeSet;

#[derive(Clone, Debug, PartialEq)]
pub enum Ty { S(&'static str), M(&'static str, usize, usize), Set, Tup, Rec, Tab }

#[derive(Clone, Debug)]
pub struct Var { pub name: String, pub ty: Ty, pub mutable: bool }

pub struct Prog { pub stmts: Vec<String>, pub tags: BTreeSet<String>, pub restricted: bool, pub mutates: bool }
impl Prog {
  pub fn text(&self) -> String { self.stmts.join("\n") }
  pub fn constructs(&self) -> String { self.tags.iter().cloned().collect::<Vec<_>>().join("+") }
}

pub const SKINDS: [&str; 8] = ["f64", "u8", "u64", "i8", "i64", "f32", "bool", "string"];

pub fn lit_scalar(k: &str, rng: &mut Rng) -> String {
  match k {
    "f64" => { let v = [1.0, 2.0, 3.0, 0.5, 2.5, 7.0, 10.0, 0.25, 4.0]; format!("{:?}", rng.pick(&v)).trim_end_matches(".0").to_string() }
    "u8" => format!("{}u8", 1 + rng.below(9)),
    "u64" => format!("{}u64", 1 + rng.below(9)),
    "i8" => format!("{}<i8>", 1 + rng.below(9)),
    "i64" => format!("{}<i64>", 1 + rng.below(9)),
    "f32" => format!("{}<f32>", [1.5, 2.0, 0.5, 3.0][rng.below(4) as usize]),
    "bool" => if rng.chance(1, 2) { "true".into() } else { "false".into() },
    "string" => format!("\"{}\"", rng.pick(&["a", "bc", "hello", "x y", "", "zé!", "日本", "ñandú x"])),
    "r64" => format!("{}/{}", 1 + rng.below(7), 2 + rng.below(5)),
    "c64" => format!("{}+{}i", 1 + rng.below(5), 1 + rng.below(5)),
    "u16" | "u32" | "u128" => format!("{}{}", 1 + rng.below(9), k),
    "i16" | "i32" | "i128" => if rng.chance(1, 2) { format!("{}<{}>", 1 + rng.below(9), k) } else { format!("{}{}", 1 + rng.below(9), k) },
    _ => "1".into(),
  }
}
pub fn lit_matrix(k: &str, r: usize, c: usize, rng: &mut Rng) -> String {
  let rows: Vec<String> = (0..r).map(|_| (0..c).map(|_| lit_scalar(k, rng)).collect::<Vec<_>>().join(" ")).collect();
  format!("[{}]", rows.join("; "))
}

macro_rules! push { ($s:expr, $($arg:tt)*) => {{ let s__ = format!($($arg)*); $s.push(s__); }} }

pub struct Gen<'a> { pub rng: &'a mut Rng, pub vars: Vec<Var>, pub prog: Prog, counter: usize, pub clean: bool, pub rowonly: bool, last_lit: bool }

impl<'a> Gen<'a> {
  pub fn new(rng: &'a mut Rng) -> Gen<'a> { Gen { rng, vars: vec![], prog: Prog { stmts: vec![], tags: BTreeSet::new(), restricted: true, mutates: false }, counter: 0, clean: false, rowonly: false, last_lit: false } }
  /// names are v1, v2, ...; one in ten carries a non-ASCII letter (names are stored in bytecode and symbol tables too)
  fn fresh(&mut self) -> String { self.counter += 1; if self.rng.chance(1, 10) { format!("v{}é", self.counter) } else { format!("v{}", self.counter) } }
  fn tag(&mut self, t: &str) { self.prog.tags.insert(t.to_string()); }
  fn push(&mut self, s: String) { self.prog.stmts.push(s); self.last_lit = false; }
  fn vars_of(&self, f: impl Fn(&Var) -> bool) -> Vec<Var> { self.vars.iter().filter(|v| f(v)).cloned().collect() }

  /// an operand of scalar kind k: a variable of that kind or a literal
  fn scalar_operand(&mut self, k: &'static str) -> String {
    let vs = self.vars_of(|v| v.ty == Ty::S(k));
    if !vs.is_empty() && self.rng.chance(2, 3) { self.rng.pick(&vs).name.clone() } else { lit_scalar(k, self.rng) }
  }

  pub fn define_scalar_literal(&mut self, k: &'static str) {
    let n = self.fresh(); let m = self.rng.chance(1, 3);
    let l = lit_scalar(k, self.rng);
    push!(self, "{}{} := {}", if m { "~" } else { "" }, n, l);
    self.last_lit = true;
    self.tag(&format!("lit-{}", k)); self.vars.push(Var { name: n, ty: Ty::S(k), mutable: m });
  }
  pub fn define_matrix_literal(&mut self, k: &'static str, r: usize, c: usize) {
    // rowonly: literals the text formatter is known to round-trip (single-row matrices)
    let (r, c) = if self.rowonly { (1, (r * c).min(4)) } else { (r, c) };
    let n = self.fresh(); let m = self.rng.chance(1, 2);
    let l = lit_matrix(k, r, c, self.rng);
    push!(self, "{}{} := {}", if m { "~" } else { "" }, n, l);
    self.last_lit = true;
    self.tag(&format!("matlit-{}", k)); self.vars.push(Var { name: n, ty: Ty::M(k, r, c), mutable: m });
  }
  pub fn binop(&mut self, k: &'static str) {
    let ops: Vec<(&str, &str)> = match k { "c64" | "r64" => vec![("+", "add"), ("-", "sub"), ("*", "mul"), ("==", "eq")], "bool" => vec![("&&", "and"), ("||", "or"), ("==", "eq"), ("!=", "neq")], "string" => vec![("==", "eq"), ("!=", "neq")], "f64" | "f32" => vec![("+", "add"), ("-", "sub"), ("*", "mul"), ("/", "div"), ("^", "pow"), ("<", "lt"), (">=", "gte"), ("==", "eq")], _ => vec![("+", "add"), ("*", "mul"), ("<", "lt"), (">", "gt"), ("==", "eq"), ("!=", "neq"), ("<=", "lte")] };
    let (op, name) = *self.rng.pick(&ops);
    let (a, b) = (self.scalar_operand(k), self.scalar_operand(k));
    let n = self.fresh();
    push!(self, "{} := {} {} {}", n, a, op, b);
    self.tag(&format!("op-{}-{}", name, k));
    let rk = if matches!(name, "lt" | "gt" | "gte" | "lte" | "eq" | "neq" | "and" | "or") { "bool" } else { k };
    self.vars.push(Var { name: n, ty: Ty::S(rk), mutable: false });
  }
  /// a formula with 2-4 operators of one kind in one statement (same level and mixed levels, unparenthesised or partly parenthesised)
  pub fn chain(&mut self) {
    let k: &'static str = if self.rng.chance(1, 5) { "bool" } else { "f64" };
    let n = 2 + self.rng.below(3) as usize;
    let ops: Vec<&str> = if k == "bool" { vec!["&&", "||", "==", "!="] } else { vec!["+", "-", "*", "/", "-", "/"] };
    let mut parts: Vec<String> = vec![self.scalar_operand(k)];
    let mut tagops = String::new();
    for _ in 0..n { let op = *self.rng.pick(&ops); tagops.push_str(match op { "+" => "a", "-" => "s", "*" => "m", "/" => "d", "&&" => "n", "||" => "o", "==" => "e", _ => "q" }); parts.push(op.to_string()); let o = self.scalar_operand(k); parts.push(o); }
    // optionally parenthesise one inner pair
    if self.rng.chance(1, 3) { let i = 2 * (1 + self.rng.below(n as u64 - 1) as usize); parts[i] = format!("({}", parts[i]); parts[i + 2] = format!("{})", parts[i + 2]); tagops.push('p'); }
    let nme = self.fresh();
    push!(self, "{} := {}", nme, parts.join(" "));
    self.tag(&format!("chain-{}-{}", k, n));
    self.vars.push(Var { name: nme, ty: Ty::S(k), mutable: false });
  }
  /// a matrix literal stacked from k rows / k columns of scalars (k = 2..6): one concatenation instruction with k operands
  pub fn stacked(&mut self) {
    let k = 2 + self.rng.below(5) as usize;
    let vert = !self.rowonly && self.rng.chance(1, 2);
    let two = self.rng.chance(1, 3);
    let rows: Vec<String> = (0..k).map(|_| if two && vert { format!("{} {}", self.scalar_operand("f64"), self.scalar_operand("f64")) } else { self.scalar_operand("f64") }).collect();
    let nme = self.fresh();
    push!(self, "{} := [{}]", nme, rows.join(if vert { "; " } else { " " }));
    self.tag(&format!("stacked-{}-{}", if vert { "v" } else { "h" }, k));
    self.vars.push(Var { name: nme, ty: if vert { Ty::M("f64", k, if two { 2 } else { 1 }) } else { Ty::M("f64", 1, k) }, mutable: false });
  }
  pub fn matrix_binop(&mut self) {
    let ms = self.vars_of(|v| matches!(v.ty, Ty::M(k, _, _) if k == "f64" || k == "u8" || k == "i64"));
    if ms.is_empty() { return; }
    let a = self.rng.pick(&ms).clone();
    let Ty::M(k, r, c) = a.ty.clone() else { return };
    let same = self.vars_of(|v| v.ty == a.ty);
    let b = if self.rng.chance(1, 2) { self.rng.pick(&same).name.clone() } else { lit_scalar(k, self.rng) };
    let ops: Vec<(&str, &str)> = if k == "f64" { vec![("+", "add"), ("-", "sub"), ("*", "mul"), ("/", "div"), (">", "gt")] } else { vec![("+", "add"), ("*", "mul"), ("==", "eq")] };
    let (op, name) = *self.rng.pick(&ops);
    let n = self.fresh();
    let swap = self.rng.chance(1, 3);
    self.push(if swap { format!("{} := {} {} {}", n, b, op, a.name) } else { format!("{} := {} {} {}", n, a.name, op, b) });
    self.tag(&format!("matop-{}-{}", name, k));
    let rk: &'static str = if matches!(name, "gt" | "eq") { "bool" } else { k };
    self.vars.push(Var { name: n, ty: Ty::M(rk, r, c), mutable: false });
  }
  pub fn unop(&mut self) {
    let clean = self.clean;
    let vs = self.vars_of(|v| matches!(v.ty, Ty::S("f64") | Ty::S("i64") | Ty::S("bool")) || (!clean && matches!(v.ty, Ty::M("f64", _, _))));
    if vs.is_empty() { return; }
    let a = self.rng.pick(&vs).clone(); let n = self.fresh();
    match a.ty { Ty::S("bool") => { push!(self, "{} := !{}", n, a.name); self.tag("op-not-bool"); } _ => { push!(self, "{} := -{}", n, a.name); self.tag("op-neg"); } }
    self.vars.push(Var { name: n, ty: a.ty.clone(), mutable: false });
  }
  pub fn range(&mut self) {
    let n = self.fresh(); let a = 1 + self.rng.below(3); let b = a + 1 + self.rng.below(5);
    let mut form = self.rng.below(4);
    if self.rowonly && form == 2 { form = 0; }
    let (src, len) = match form { 0 => (format!("{}..={}", a, b), (b - a + 1) as usize), 1 => (format!("{}..{}", a, b), (b - a) as usize), 2 => (format!("{}..2..={}", a, b), ((b - a) / 2 + 1) as usize), _ => (format!("{}u8..={}u8", a, b), (b - a + 1) as usize) };
    push!(self, "{} := {}", n, src); self.tag(&format!("range-{}", form));
    self.vars.push(Var { name: n, ty: Ty::M(if form == 3 { "u8" } else { "f64" }, 1, len), mutable: false });
  }
  pub fn index_read(&mut self) {
    let ms = self.vars_of(|v| matches!(v.ty, Ty::M(..)));
    if ms.is_empty() { return; }
    let a = self.rng.pick(&ms).clone(); let Ty::M(k, r, c) = a.ty.clone() else { return };
    let n = self.fresh(); let tot = r * c;
    let form = self.rng.below(9);
    let (ix, ty, tag): (String, Ty, &str) = match form {
      8 => (format!(".{}", 1 + self.rng.below(tot as u64)), Ty::S(k), "ix-dot"),
      0 => (format!("[{}]", 1 + self.rng.below(tot as u64)), Ty::S(k), "ix-s"),
      1 if r > 1 && c > 1 => (format!("[{},{}]", 1 + self.rng.below(r as u64), 1 + self.rng.below(c as u64)), Ty::S(k), "ix-ss"),
      2 if tot >= 2 => (format!("[1..={}]", 2 + self.rng.below((tot - 1) as u64)), Ty::M(k, 0, 0), "ix-range"),
      3 if r > 1 && c > 1 => (format!("[:,{}]", 1 + self.rng.below(c as u64)), Ty::M(k, r, 1), "ix-as"),
      4 if r > 1 && c > 1 => (format!("[{},:]", 1 + self.rng.below(r as u64)), Ty::M(k, 1, c), "ix-sa"),
      5 if tot >= 2 => (format!("[[{} {}]]", 1 + self.rng.below(tot as u64), 1 + self.rng.below(tot as u64)), Ty::M(k, 2, 1), "ix-vec"),
      6 if tot >= 2 => (format!("[[{}]]", (0..tot).map(|i| if i == 0 || self.rng.chance(1, 2) { "true" } else { "false" }).collect::<Vec<_>>().join(" ")), Ty::M(k, 0, 0), "ix-mask"),
      _ => (format!("[{}]", 1 + self.rng.below(tot as u64)), Ty::S(k), "ix-s"),
    };
    push!(self, "{} := {}{}", n, a.name, ix); self.tag(&format!("{}-{}", tag, k));
    // unknown-length results are not used as operands later
    if !matches!(ty, Ty::M(_, 0, 0)) { self.vars.push(Var { name: n, ty, mutable: false }); }
  }
  pub fn assign(&mut self) {
    let clean = self.clean;
    let ms = self.vars_of(|v| v.mutable && !(clean && matches!(v.ty, Ty::S(_))));
    if ms.is_empty() { return; }
    let a = self.rng.pick(&ms).clone();
    match a.ty.clone() {
      Ty::S(k) => {
        let l = lit_scalar(k, self.rng);
        if matches!(k, "f64" | "u8" | "i64" | "u64") && self.rng.chance(1, 2) { let op = *self.rng.pick(&["+=", "-=", "*="]); let op = if k != "f64" && op == "-=" { "+=" } else { op }; push!(self, "{} {} {}", a.name, op, l); self.tag(&format!("opassign-scalar-{}", k)); }
        else { push!(self, "{} = {}", a.name, l); self.tag(&format!("assign-scalar-{}", k)); }
      }
      Ty::M(k, r, c) => {
        let tot = r * c; let l = lit_scalar(k, self.rng);
        let form = self.rng.below(17);
        match form {
          // range subscripts (1-D and 2-D), whole rows, masks, vector sources and the other op-assignments
          7 if tot >= 3 => { let a0 = 1 + self.rng.below(tot as u64 - 1); let b0 = a0 + 1 + self.rng.below(tot as u64 - a0); push!(self, "{}[{}..={}] = {}", a.name, a0, b0, l); self.tag(&format!("ixassign-range-{}", k)); }
          8 if tot >= 3 => { let a0 = 1 + self.rng.below(tot as u64 - 1); push!(self, "{}[{}..{}] = {}", a.name, a0, tot + 1, l); self.tag(&format!("ixassign-xrange-{}", k)); }
          9 if r > 1 && c > 1 => { push!(self, "{}[1..={},{}] = {}", a.name, r, 1 + self.rng.below(c as u64), l); self.tag(&format!("ixassign-rs-{}", k)); }
          10 if r > 1 && c > 1 => { push!(self, "{}[{},1..={}] = {}", a.name, 1 + self.rng.below(r as u64), c, l); self.tag(&format!("ixassign-sr-{}", k)); }
          11 if r > 1 && c > 1 => { push!(self, "{}[1..=2,{}..={}] = {}", a.name, c - 1, c, l); self.tag(&format!("ixassign-rr-{}", k)); }
          12 if r > 1 && c > 1 => { push!(self, "{}[{},:] = {}", a.name, 1 + self.rng.below(r as u64), l); self.tag(&format!("ixassign-sa-{}", k)); }
          13 if tot >= 2 => { let m: Vec<&str> = (0..tot).map(|i| if i % 2 == 0 { "true" } else { "false" }).collect(); push!(self, "{}[[{}]] = {}", a.name, m.join(" "), l); self.tag(&format!("ixassign-mask-{}", k)); }
          14 if tot >= 2 => { let l2 = lit_scalar(k, self.rng); push!(self, "{}[[{} 1]] = [{} {}]", a.name, tot, l, l2); self.tag(&format!("ixassign-vecsrc-{}", k)); }
          15 if matches!(k, "f64" | "u8" | "i64") && tot >= 3 => { let op = *self.rng.pick(&["+=", "*=", "-=", "/="]); let op = if k != "f64" && matches!(op, "-=" | "/=") { "+=" } else { op }; push!(self, "{}[2..={}] {} {}", a.name, tot, op, l); self.tag(&format!("ixopassign-range-{}", k)); }
          16 if matches!(k, "f64" | "u8" | "i64") => { let op = *self.rng.pick(&["+=", "*="]); push!(self, "{} {} {}", a.name, op, l); self.tag(&format!("opassign-matrix-scalar-{}", k)); }
          0 => { push!(self, "{}[{}] = {}", a.name, 1 + self.rng.below(tot as u64), l); self.tag(&format!("ixassign-s-{}", k)); }
          1 if r > 1 && c > 1 => { push!(self, "{}[{},{}] = {}", a.name, 1 + self.rng.below(r as u64), 1 + self.rng.below(c as u64), l); self.tag(&format!("ixassign-ss-{}", k)); }
          2 if r > 1 && c > 1 => { push!(self, "{}[:,{}] = {}", a.name, 1 + self.rng.below(c as u64), l); self.tag(&format!("ixassign-as-{}", k)); }
          3 => { push!(self, "{}[:] = {}", a.name, l); self.tag(&format!("ixassign-all-{}", k)); }
          4 if tot >= 2 => { push!(self, "{}[[1 {}]] = {}", a.name, tot, l); self.tag(&format!("ixassign-vec-{}", k)); }
          5 if matches!(k, "f64" | "u8" | "i64") && tot >= 2 => { push!(self, "{}[[1 2]] += {}", a.name, l); self.tag(&format!("ixopassign-vec-{}", k)); }
          6 if matches!(k, "f64") => { push!(self, "{} += {}", a.name, lit_matrix(k, r, c, self.rng)); self.tag("opassign-matrix-f64"); }
          _ => { push!(self, "{}[{}] = {}", a.name, 1 + self.rng.below(tot as u64), l); self.tag(&format!("ixassign-s-{}", k)); }
        }
      }
      _ => return,
    }
    self.prog.mutates = true;
  }
  /// constructs outside the restricted class (bytecode may refuse them, but must not lie)
  pub fn general(&mut self) {
    let n = self.fresh();
    let mut pick = self.rng.below(24);
    if self.rowonly && (pick == 17 || pick == 21 || pick == 22) { pick = 16; }
    if self.rowonly && (pick == 3 || pick == 14) { pick = 0; }
    let fs = self.vars_of(|v| v.ty == Ty::S("f64"));
    let fm = self.vars_of(|v| matches!(v.ty, Ty::M("f64", _, _)));
    let x = if !fs.is_empty() { self.rng.pick(&fs).name.clone() } else { lit_scalar("f64", self.rng) };
    let (src, ty, tag): (String, Option<Ty>, &str) = match pick {
      0 => (format!("{{{}, {}, {}}}", lit_scalar("f64", self.rng), lit_scalar("f64", self.rng), lit_scalar("f64", self.rng)), Some(Ty::Set), "set-literal"),
      1 => (format!("({}, {})", lit_scalar("f64", self.rng), lit_scalar("string", self.rng)), Some(Ty::Tup), "tuple-literal"),
      2 => (format!("{{a: {}, b: {}}}", lit_scalar("f64", self.rng), lit_scalar("u8", self.rng)), Some(Ty::Rec), "record-literal"),
      3 => (format!("|a<f64> b<u8>| {} {} | {} {} |", lit_scalar("f64", self.rng), lit_scalar("u8", self.rng), lit_scalar("f64", self.rng), lit_scalar("u8", self.rng)), Some(Ty::Tab), "table-literal"),
      4 => (format!("math/sin({})", x), Some(Ty::S("f64")), "call-sin"),
      5 => (format!("math/cos({})", x), Some(Ty::S("f64")), "call-cos"),
      6 => (format!("math/sqrt({})", x), Some(Ty::S("f64")), "call-sqrt"),
      7 if !fm.is_empty() => (format!("stats/sum/column({})", self.rng.pick(&fm).name), None, "call-sum-column"),
      8 if !fm.is_empty() => (format!("{}'", self.rng.pick(&fm).name), None, "transpose"),
      9 => (format!("compare/max({}, {})", x, lit_scalar("f64", self.rng)), Some(Ty::S("f64")), "call-max"),
      10 => (format!("{{y * 2 | y <- {{{}, {}, {}}}}}", lit_scalar("f64", self.rng), lit_scalar("f64", self.rng), lit_scalar("f64", self.rng)), Some(Ty::Set), "set-comprehension"),
      11 => (format!("{}<u8>", lit_scalar("f64", self.rng)), Some(Ty::S("u8")), "convert-literal"),
      12 => (lit_scalar("r64", self.rng), None, "lit-r64"),
      13 => (lit_scalar("c64", self.rng), None, "lit-c64"),
      14 => (format!("[{} {}] ** [{}; {}]", lit_scalar("f64", self.rng), lit_scalar("f64", self.rng), lit_scalar("f64", self.rng), lit_scalar("f64", self.rng)), None, "matmul"),
      16 => (format!("{{{}, {}}}", lit_scalar("string", self.rng), lit_scalar("string", self.rng)), Some(Ty::Set), "set-literal-string"),
      17 => (format!("|a<string> b<f64>| {} {} | {} {} |", lit_scalar("string", self.rng), lit_scalar("f64", self.rng), lit_scalar("string", self.rng), lit_scalar("f64", self.rng)), Some(Ty::Tab), "table-literal-string"),
      18 => (format!("({}, {{s: {}}})", lit_scalar("string", self.rng), lit_scalar("string", self.rng)), Some(Ty::Tup), "tuple-record-string"),
      // containers of rationals / complex numbers / small integers (element kind tags inside set and table constants)
      19 => (format!("{{{}, {}}}", lit_scalar("r64", self.rng), lit_scalar("r64", self.rng)), Some(Ty::Set), "set-literal-r64"),
      20 => (format!("{{{}, {}}}", lit_scalar("c64", self.rng), lit_scalar("c64", self.rng)), Some(Ty::Set), "set-literal-c64"),
      21 => (format!("|a<r64> b<u8>| {} {} | {} {} |", lit_scalar("r64", self.rng), lit_scalar("u8", self.rng), lit_scalar("r64", self.rng), lit_scalar("u8", self.rng)), Some(Ty::Tab), "table-literal-r64"),
      22 => (format!("|a<c64> b<bool>| {} true | {} false |", lit_scalar("c64", self.rng), lit_scalar("c64", self.rng)), Some(Ty::Tab), "table-literal-c64"),
      23 => { let k = *self.rng.pick(&["u8", "i64", "bool", "u64"]); (format!("{{{}, {}}}", lit_scalar(k, self.rng), lit_scalar(k, self.rng)), Some(Ty::Set), "set-literal-int") }
      _ => (format!("math/abs(-{})", x), Some(Ty::S("f64")), "call-abs"),
    };
    push!(self, "{} := {}", n, src); self.tag(tag); self.prog.restricted = false;
    self.last_lit = matches!(tag, "set-literal" | "tuple-literal" | "record-literal" | "table-literal" | "lit-r64" | "lit-c64" | "set-literal-string" | "table-literal-string" | "tuple-record-string" | "set-literal-r64" | "set-literal-c64" | "table-literal-r64" | "table-literal-c64" | "set-literal-int");
    if let Some(t) = ty { self.vars.push(Var { name: n, ty: t, mutable: false }); }
  }

  pub fn step(&mut self, allow_general: bool, allow_mutation: bool) {
    let roll = self.rng.below(100);
    // clean mode: only constructs whose bytecode is known to be registered (f64 / bool / string, no scalar '=' and no matrix negate)
    let k = if self.clean { *self.rng.pick(&["f64", "f64", "bool", "string"]) } else { *self.rng.pick(&SKINDS) };
    match roll {
      // complex and rational scalars (general class): definitions and arithmetic
      0..=2 if !self.clean && allow_general => { let ck = *self.rng.pick(&["c64", "r64"]); if self.rng.chance(1, 2) { self.define_scalar_literal(ck) } else { self.binop(ck) } self.prog.restricted = false; }
      0..=14 => self.define_scalar_literal(k),
      15..=27 => { let (r, c) = *self.rng.pick(&[(1usize, 3usize), (3, 1), (2, 2), (2, 3), (3, 3), (1, 1), (4, 1), (1, 4), (4, 2), (5, 1), (2, 5)]); let mk = if self.clean { *self.rng.pick(&["f64", "f64", "bool", "string"]) } else { *self.rng.pick(&["f64", "f64", "f64", "u8", "u8", "i64", "i64", "bool", "bool", "string", "string", "u16", "u32", "u64", "u128", "i8", "i16", "i32", "i128", "f32"]) }; self.define_matrix_literal(mk, r, c) }
      28..=33 => self.chain(),
      34..=36 => self.stacked(),
      37..=45 => self.binop(k),
      46..=53 => self.matrix_binop(),
      54..=58 => self.unop(),
      59..=64 => if self.clean { self.binop(k) } else { self.range() },
      65..=79 => self.index_read(),
      80..=91 => if allow_mutation { self.assign() } else { self.binop(k) },
      _ => if allow_general { self.general() } else { self.index_read() },
    }
  }
  /// final expression statement so that the program result is a value that depends on earlier statements
  pub fn finish(&mut self) {
    // the program's result is the value of its last statement; a trailing bare reference to an *earlier* variable is
    // generated only in the dedicated trailing-reference construct (bytecode has no instruction for it)
    if self.rng.chance(1, 12) && self.vars.len() >= 2 { let v = self.vars[0].name.clone(); self.push(v); self.tag("trailing-reference"); return; }
    // the value of a program is the value of its last statement: half of the programs end in a bare expression (the last
    // definition without its `name :=`), so that the result is the output of the last operator and not of a definition
    if self.rng.chance(1, 2) {
      if let Some(last) = self.prog.stmts.last().cloned() {
        if let Some(pos) = last.find(" := ") { let (lhs, rhs) = (&last[..pos], &last[pos + 4..]); if lhs.starts_with('v') && !lhs.contains('<') && self.prog.stmts.len() >= 2 { let n = self.prog.stmts.len(); self.prog.stmts[n - 1] = rhs.to_string(); let t = if self.last_lit { "final-literal" } else { "final-expr" }; self.tag(t); } }
      }
    }
  }
}

/// a random program of n statements
pub fn random_program(rng: &mut Rng, n: usize, allow_general: bool, allow_mutation: bool) -> Prog { random_program_mode(rng, n, allow_general, allow_mutation, false) }
pub fn random_program_mode(rng: &mut Rng, n: usize, allow_general: bool, allow_mutation: bool, clean: bool) -> Prog { random_program_modes(rng, n, allow_general, allow_mutation, clean, false) }
pub fn random_program_modes(rng: &mut Rng, n: usize, allow_general: bool, allow_mutation: bool, clean: bool, rowonly: bool) -> Prog {
  let mut g = Gen::new(rng);
  g.clean = clean;
  g.rowonly = rowonly;
  // seed with a few definitions so operators have operands
  g.define_scalar_literal("f64");
  g.define_matrix_literal("f64", 2, 3);
  for _ in 0..n { g.step(allow_general, allow_mutation); }
  g.finish();
  g.prog
}

/// single-construct programs: one minimal program per construct family (used as a sweep before composites)
pub fn construct_sweep(rng: &mut Rng) -> Vec<Prog> {
  let mut out = Vec::new();
  for k in SKINDS.iter() {
    { let mut g = Gen::new(rng); g.define_scalar_literal(k); g.finish(); out.push(g.prog); }
    for _ in 0..4 { let mut g = Gen::new(rng); g.define_scalar_literal(k); g.binop(k); g.finish(); out.push(g.prog); }
  }
  for mk in ["f64", "u8", "u64", "i8", "i64", "f32", "bool", "string", "u16", "u32", "u128", "i16", "i32", "i128"] {
    let mk: &'static str = mk;
    for (r, c) in [(1usize, 3usize), (3, 1), (2, 2), (2, 3), (4, 1), (1, 4), (4, 2), (5, 1)] {
      { let mut g = Gen::new(rng); g.define_matrix_literal(mk, r, c); g.finish(); out.push(g.prog); }
      for _ in 0..6 { let mut g = Gen::new(rng); g.define_matrix_literal(mk, r, c); g.index_read(); g.finish(); out.push(g.prog); }
      for _ in 0..12 { let mut g = Gen::new(rng); g.define_matrix_literal(mk, r, c); g.vars[0].mutable = true; let s = g.prog.stmts[0].clone(); if !s.starts_with('~') { g.prog.stmts[0] = format!("~{}", s); } g.assign(); out.push(g.prog); }
      if matches!(mk, "f64" | "u8" | "i64") { for _ in 0..3 { let mut g = Gen::new(rng); g.define_matrix_literal(mk, r, c); g.matrix_binop(); g.finish(); out.push(g.prog); } }
    }
  }
  // complex and rational scalars: literal definitions and arithmetic (general class)
  for ck in ["c64", "r64"] {
    let ck: &'static str = ck;
    for _ in 0..6 { let mut g = Gen::new(rng); g.define_scalar_literal(ck); g.prog.restricted = false; out.push(g.prog); }
    for _ in 0..10 { let mut g = Gen::new(rng); g.define_scalar_literal(ck); g.define_scalar_literal(ck); g.binop(ck); g.prog.restricted = false; g.finish(); out.push(g.prog); }
  }
  // containers of EVERY scalar element kind as the program's value (set, table column, record field, tuple item; also written as
  // a definition followed by a bare reference): the element-kind tags inside set / table / record constants (general class)
  for ek in ["u8", "u16", "u32", "u64", "u128", "i8", "i16", "i32", "i64", "i128", "f32", "f64", "r64", "c64", "bool", "string"] {
    for form in 0..5 {
      let (a, b) = (lit_scalar(ek, rng), { let mut b = lit_scalar(ek, rng); for _ in 0..4 { if b != *"" { break; } b = lit_scalar(ek, rng); } b });
      let text = match form {
        0 => format!("{{{}, {}}}", a, b),
        1 => format!("|a<{}> b<u8>| {} 1u8 | {} 2u8 |", ek, a, b),
        2 => format!("{{p: {}, q: {}}}", a, b),
        3 => format!("({}, {}, 1)", a, b),
        // hexadecimal / binary spellings are i64 literals
        // (no annotated literal here: bytecode of a kind conversion does not run - KF-C06-01 - and would hide the container)
        _ => if ek == "i64" { "{0x1F, 0b101, 0x07}".to_string() } else if ek == "u8" { "|a<i64> b<bool>| 0x1F true | 0x02 false |".to_string() } else if ek == "u16" { "{p: 0x1F, q: 0b11}".to_string() } else if ek == "u32" { "(0x1F, 0b11, true)".to_string() } else { format!("{{{}}}", a) },
      };
      let mut g = Gen::new(rng);
      g.prog.restricted = false;
      g.prog.tags.insert(format!("container-{}-{}", ["set", "table", "record", "tuple", "set1"][form], ek));
      g.prog.stmts.push(format!("v1 := {}", text));
      out.push(g.prog);
      let mut g2 = Gen::new(rng);
      g2.prog.restricted = false;
      g2.prog.tags.insert(format!("container-bare-{}-{}", ["set", "table", "record", "tuple", "set1"][form], ek));
      // (a bare tuple / record literal adds no plan step: the recorded finding about final bare literals)
      if form == 2 || form == 3 || (form == 4 && matches!(ek, "u8" | "u16" | "u32")) { g2.prog.tags.insert("final-literal".to_string()); }
      g2.prog.stmts.push(text);
      out.push(g2.prog);
    }
  }
  for _ in 0..8 { let mut g = Gen::new(rng); g.range(); g.finish(); out.push(g.prog); }
  for _ in 0..40 { let mut g = Gen::new(rng); g.define_scalar_literal("f64"); g.define_scalar_literal("f64"); g.chain(); g.finish(); out.push(g.prog); }
  for _ in 0..30 { let mut g = Gen::new(rng); g.define_scalar_literal("f64"); g.define_scalar_literal("f64"); g.stacked(); g.finish(); out.push(g.prog); }
  for _ in 0..4 { let mut g = Gen::new(rng); g.define_scalar_literal("f64"); g.vars[0].mutable = true; let s = g.prog.stmts[0].clone(); if !s.starts_with('~') { g.prog.stmts[0] = format!("~{}", s); } g.assign(); out.push(g.prog); }
  for _ in 0..120 { let mut g = Gen::new(rng); g.define_scalar_literal("f64"); g.define_matrix_literal("f64", 2, 2); g.general(); g.finish(); out.push(g.prog); }
  for _ in 0..6 { let mut g = Gen::new(rng); g.define_scalar_literal("f64"); g.define_scalar_literal("bool"); g.define_matrix_literal("f64", 1, 3); g.unop(); g.finish(); out.push(g.prog); }
  out
}

/// every native function the registry lists (corpus::stdlib_functions) called with a static set of argument shapes and kinds,
/// arguments bound to variables first or written inline; most combinations are rejected by the interpreter (wrong arity or
/// kind) - the properties that use the sweep only judge the programs that evaluate
pub fn stdlib_sweep() -> Vec<(String, String)> {
  let unary: [(&str, &str); 12] = [("f64", "2.5"), ("row", "[1 2 3]"), ("col", "[1; 2; 3]"), ("mat", "[1 2; 3 4]"), ("wide", "[1 2 3 4 5; 6 7 8 9 10]"), ("col5", "[1; 2; 3; 4; 5]"), ("u8", "3u8"), ("i64", "3<i64>"), ("set", "{1, 2, 3}"), ("string", "\"ab\""), ("bool", "true"), ("boolrow", "[true false true]")];
  let binary: [(&str, &str, &str); 34] = [("f64,f64", "2.5", "0.5"), ("row,row", "[1 2 3]", "[4 5 6]"), ("col,col", "[1; 2; 3]", "[4; 5; 6]"), ("mat,mat", "[1 2; 3 4]", "[5 6; 7 8]"), ("mat,f64", "[1 2; 3 4]", "2"), ("f64,mat", "2", "[1 2; 3 4]"), ("mat,col", "[1 2; 3 4]", "[5; 6]"),
    ("u8,u8", "7u8", "2u8"), ("set,set", "{1, 2, 3}", "{2, 3, 4}"), ("f64,set", "2", "{1, 2, 3}"), ("set,f64", "{1, 2, 3}", "4"), ("string,string", "\"ab\"", "\"cd\""), ("bool,bool", "true", "false"),
    ("bool,boolrow", "true", "[true false true]"), ("boolrow,bool", "[true false true]", "true"), ("boolrow,boolrow", "[true false true]", "[true true false]"), ("boolmat,bool", "[true false; false true]", "true"), ("bool,boolmat", "false", "[true false; false true]"),
    ("f64,row", "2", "[1 2 3]"), ("row,f64", "[1 2 3]", "2"), ("f64,col", "2", "[1; 2; 3]"), ("col,f64", "[1; 2; 3]", "2"), ("mat,row", "[1 2; 3 4]", "[5 6]"), ("u8row,u8", "[1u8 2u8 3u8]", "2u8"), ("u8,u8row", "2u8", "[1u8 2u8 3u8]"),
    // a vector on the LEFT of a matrix, and non-square matrices with both vector orientations on either side
    ("col,mat", "[5; 6]", "[1 2; 3 4]"), ("row,mat", "[5 6]", "[1 2; 3 4]"), ("col2,mat23", "[10; 20]", "[1 2 3; 4 5 6]"), ("mat23,col2", "[1 2 3; 4 5 6]", "[10; 20]"), ("row3,mat23", "[10 20 30]", "[1 2 3; 4 5 6]"), ("mat23,row3", "[1 2 3; 4 5 6]", "[10 20 30]"), ("mat23,mat23", "[1 2 3; 4 5 6]", "[6 5 4; 3 2 1]"), ("mat23,mat32", "[1 2 3; 4 5 6]", "[1 2; 3 4; 5 6]"), ("mat32,mat23", "[1 2; 3 4; 5 6]", "[1 2 3; 4 5 6]")];
  let mut out = Vec::new();
  for f in crate::corpus::stdlib_functions().into_iter().filter(|f| !f.contains('_')) {
    for (an, a) in unary.iter() {
      out.push((format!("fn={};args={};form=v", f, an), format!("x := {}\nr := {}(x)", a, f)));
      out.push((format!("fn={};args={};form=l", f, an), format!("r := {}({})", f, a)));
    }
    for (an, a, b) in binary.iter() {
      out.push((format!("fn={};args={};form=vv", f, an), format!("x := {}\ny := {}\nr := {}(x, y)", a, b, f)));
      out.push((format!("fn={};args={};form=ll", f, an), format!("r := {}({}, {})", f, a, b)));
    }
  }
  out
}
