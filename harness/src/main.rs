#![allow(dead_code, unused_variables, unused_imports, unused_mut)]
mod canon;
mod fw;
mod sess;
mod refm;
mod genprog;
mod alloc;
mod corpus;

#[global_allocator]
static GLOBAL: alloc::Counting = alloc::Counting;
mod props;

use fw::*;
use std::collections::BTreeMap;

fn arg<'a>(args: &'a [String], name: &str) -> Option<&'a str> {
  args.iter().position(|a| a == name).and_then(|i| args.get(i + 1)).map(|s| s.as_str())
}

fn main() {
  let args: Vec<String> = std::env::args().collect();
  if args.len() < 2 { eprintln!("usage: mv check|worker|replay|eval ..."); std::process::exit(64); }
  match args[1].as_str() {
    "eval" => {
      // probe: mv eval 'src' ['src2' ...] : each argument is interpreted in the same session
      install_quiet_panic_hook();
      let mut s = sess::Sess::new();
      for src in &args[2..] {
        // "@step" re-runs the whole plan once (the REPL's step command) and prints the symbols
        if src == "@step" { let r = guarded(|| s.intrp.step(0, 1).map(|_| ())); println!("@step => {:?}\n  symbols: {}", r.map(|x| x.map_err(|e| e.kind_name())), sess::show_snapshot(&s.snapshot())); continue; }
        let r = s.eval(src);
        println!("{:?} => {}   arm={}", src, r.show(), s.last_arm());
      }
      println!("symbols: {}", sess::show_snapshot(&s.snapshot()));
    }
    "stdlib" => { for n in corpus::stdlib_functions() { println!("{}", n); } }
    "check" => {
      let pid = &args[2];
      let prop = props::get(pid).unwrap_or_else(|| { eprintln!("unknown property {}", pid); std::process::exit(64) });
      let tier = Tier::parse(arg(&args, "--tier").unwrap_or(&std::env::var("VERIF_TIER").unwrap_or("quick".into())));
      let seed: u64 = arg(&args, "--seed").map(|s| s.to_string()).or(std::env::var("VERIF_SEED").ok()).and_then(|s| s.parse().ok()).unwrap_or(0);
      let jobs: usize = arg(&args, "--jobs").and_then(|s| s.parse().ok()).unwrap_or(16);
      let mut bins = BTreeMap::new();
      bins.insert("chk".to_string(), std::env::current_exe().unwrap().to_string_lossy().to_string());
      let mut i = 0;
      while i < args.len() { if args[i] == "--bin" { let (f, p) = args[i + 1].split_once('=').unwrap(); bins.insert(f.to_string(), p.to_string()); i += 1; } i += 1; }
      let cfg = DriverCfg { tier, seed, jobs, bins, verif_dir: arg(&args, "--verif").unwrap_or("/verif").to_string(), only_cell: arg(&args, "--cell").map(|s| s.to_string()) };
      let rep = drive(prop.as_ref(), &cfg);
      std::process::exit(rep.exit);
    }
    "worker" => {
      // a worker must not outlive its driver (a killed driver would otherwise leave spinning workers behind)
      unsafe { libc::prctl(libc::PR_SET_PDEATHSIG, libc::SIGKILL); }
      let pid = &args[2];
      let prop = props::get(pid).expect("unknown property");
      let tier = Tier::parse(arg(&args, "--tier").unwrap());
      let seed: u64 = arg(&args, "--seed").unwrap().parse().unwrap();
      let shard: usize = arg(&args, "--shard").unwrap().parse().unwrap();
      let nshards: usize = arg(&args, "--nshards").unwrap().parse().unwrap();
      let start: usize = arg(&args, "--start").unwrap().parse().unwrap();
      let fl = arg(&args, "--flavour").unwrap_or("chk");
      worker_main(prop.as_ref(), tier, seed, shard, nshards, start, arg(&args, "--out").unwrap(), fl, fl == "asan", arg(&args, "--cell"), arg(&args, "--cases"));
    }
    "replay" => {
      let path = &args[2];
      let txt = std::fs::read_to_string(path).expect("read witness");
      let v: serde_json::Value = serde_json::from_str(&txt).expect("json");
      let pid = v["property"].as_str().expect("property").to_string();
      let prop = props::get(&pid).expect("unknown property");
      std::process::exit(replay(prop.as_ref(), path, args.iter().any(|a| a == "--json")));
    }
    "trace" => {
      install_quiet_panic_hook();
      let src = std::fs::read_to_string(&args[2]).unwrap();
      let mut s = sess::Sess::new();
      s.intrp.set_trace_enabled(true); s.intrp.set_trace_to_stdout(false);
      if let Some(m) = arg(&args, "--max-steps") { s.intrp.max_steps = m.parse().unwrap(); }
      let r = s.eval(&src);
      println!("{}", r.show());
      for e in s.intrp.trace_events() { println!("{:?} | {:?} | {}", e.channel, e.label, e.message); }
    }
    "c09purity" => { props::c09::purity_main(args[2].parse().unwrap_or(0)); }
    "c20trace" => { props::c20::trace_main(args[2].parse().unwrap_or(0), &args[3]); }
    "flavours" => {
      let prop = props::get(&args[2]).expect("unknown property");
      let tier = Tier::parse(args.get(3).map(|s| s.as_str()).unwrap_or("quick"));
      println!("{}", prop.flavours(tier).join(" "));
    }
    "cases" => {
      // list generated cases (debug)
      let prop = props::get(&args[2]).expect("unknown property");
      let tier = Tier::parse(arg(&args, "--tier").unwrap_or("quick"));
      let cases = prop.gen(tier, 0);
      println!("{} cases", cases.len());
      let n: usize = arg(&args, "--n").and_then(|s| s.parse().ok()).unwrap_or(10);
      let step = (cases.len() / n.max(1)).max(1);
      for c in cases.iter().step_by(step) { println!("{} | {} | {}", c.id, c.cell, c.input); }
    }
    x => { eprintln!("unknown command {}", x); std::process::exit(64); }
  }
}
