//! Static corpora: programs harvested once from the repository's own tests (committed under /verif/corpus),
//! and the .mec documents that live in /repo.

use serde_json::Value as J;

pub fn verif_dir() -> String { std::env::var("VERIF_DIR").unwrap_or_else(|_| "/verif".to_string()) }

/// (name, source) pairs of the harvested test programs
pub fn test_programs() -> Vec<(String, String)> {
  let txt = std::fs::read_to_string(format!("{}/corpus/programs.json", verif_dir())).unwrap_or_else(|_| "[]".into());
  let v: Vec<J> = serde_json::from_str(&txt).unwrap_or_default();
  v.iter().map(|p| (p["name"].as_str().unwrap_or("").to_string(), p["src"].as_str().unwrap_or("").to_string())).collect()
}

/// every .mec file under /repo (docs, examples, tests), sorted, with size cap
pub fn mec_files(max_bytes: usize) -> Vec<(String, String)> {
  fn walk(dir: &std::path::Path, out: &mut Vec<std::path::PathBuf>) {
    if let Ok(rd) = std::fs::read_dir(dir) {
      for e in rd.flatten() {
        let p = e.path();
        let name = p.file_name().map(|s| s.to_string_lossy().to_string()).unwrap_or_default();
        if p.is_dir() { if name == "target" || name == ".git" || name == "node_modules" { continue; } walk(&p, out); }
        else if name.ends_with(".mec") { out.push(p); }
      }
    }
  }
  let mut files = Vec::new();
  walk(std::path::Path::new("/repo"), &mut files);
  files.sort();
  let mut out = Vec::new();
  for f in files { if let Ok(s) = std::fs::read_to_string(&f) { if s.len() <= max_bytes { out.push((f.to_string_lossy().trim_start_matches("/repo/").to_string(), s)); } } }
  out
}

/// names of the native functions a fresh interpreter can call (`namespace/name`), read from its registry: the inventory the
/// stdlib sweeps iterate over
pub fn stdlib_functions() -> Vec<String> {
  let mut out: Vec<String> = inventory::iter::<mech_core::FunctionCompilerDescriptor>.into_iter().map(|d| d.name.to_string()).filter(|n| n.contains('/')).collect();
  out.sort(); out.dedup();
  out
}
