//! Reference semantics shared by several properties.
