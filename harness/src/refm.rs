//! Reference semantics shared by several properties (written independently of the code under test).

use crate::canon::*;
use crate::fw::Rng;

pub const INT_KINDS: [&str; 10] = ["u8", "u16", "u32", "u64", "u128", "i8", "i16", "i32", "i64", "i128"];
pub const NUM_KINDS: [&str; 14] = ["u8", "u16", "u32", "u64", "u128", "i8", "i16", "i32", "i64", "i128", "f32", "f64", "r64", "c64"];
pub const ALL_KINDS: [&str; 16] = ["u8", "u16", "u32", "u64", "u128", "i8", "i16", "i32", "i64", "i128", "f32", "f64", "r64", "c64", "bool", "string"];
pub const REAL_KINDS: [&str; 13] = ["u8", "u16", "u32", "u64", "u128", "i8", "i16", "i32", "i64", "i128", "f32", "f64", "r64"];

pub fn is_unsigned(k: &str) -> bool { k.starts_with('u') }
pub fn is_signed(k: &str) -> bool { k.starts_with('i') }
pub fn is_int(k: &str) -> bool { is_unsigned(k) || is_signed(k) }
pub fn is_float(k: &str) -> bool { k == "f32" || k == "f64" }
pub fn bits(k: &str) -> u32 { k[1..].parse().unwrap_or(64) }

pub fn int_min(k: &str) -> i128 { if is_unsigned(k) { 0 } else if bits(k) == 128 { i128::MIN } else { -(1i128 << (bits(k) - 1)) } }
/// max as u128 (covers u128)
pub fn int_max_u(k: &str) -> u128 {
  let b = bits(k);
  if is_unsigned(k) { if b == 128 { u128::MAX } else { (1u128 << b) - 1 } } else { if b == 128 { i128::MAX as u128 } else { (1u128 << (b - 1)) - 1 } }
}

/// Integer scalar as a sign + magnitude pair that covers both i128 and u128: (negative, magnitude)
#[derive(Clone, Copy, Debug, PartialEq, Eq)]
pub struct Big { pub neg: bool, pub mag: u128 }
impl Big {
  pub fn from_sc(s: &Sc) -> Option<Big> { match s { Sc::U(x) => Some(Big { neg: false, mag: *x }), Sc::I(x) => Some(Big { neg: *x < 0, mag: x.unsigned_abs() }), _ => None } }
  pub fn norm(self) -> Big { if self.mag == 0 { Big { neg: false, mag: 0 } } else { self } }
  pub fn fits(self, k: &str) -> bool {
    let s = self.norm();
    if s.neg { if is_unsigned(k) { false } else { s.mag <= int_min(k).unsigned_abs() } } else { s.mag <= int_max_u(k) }
  }
  pub fn to_cval(self, k: &str) -> CVal {
    let s = self.norm();
    if is_unsigned(k) { sc_u(k, s.mag) } else { sc_i(k, if s.neg { (s.mag as i128).wrapping_neg() } else { s.mag as i128 }) }
  }
  pub fn add(self, o: Big) -> Option<Big> {
    if self.neg == o.neg { self.mag.checked_add(o.mag).map(|m| Big { neg: self.neg, mag: m }.norm()) }
    else if self.mag >= o.mag { Some(Big { neg: self.neg, mag: self.mag - o.mag }.norm()) }
    else { Some(Big { neg: o.neg, mag: o.mag - self.mag }.norm()) }
  }
  pub fn negate(self) -> Big { Big { neg: !self.neg, mag: self.mag }.norm() }
  pub fn sub(self, o: Big) -> Option<Big> { self.add(o.negate()) }
  pub fn mul(self, o: Big) -> Option<Big> { self.mag.checked_mul(o.mag).map(|m| Big { neg: self.neg != o.neg, mag: m }.norm()) }
  pub fn cmp(self, o: Big) -> std::cmp::Ordering {
    let (a, b) = (self.norm(), o.norm());
    match (a.neg, b.neg) { (false, true) => std::cmp::Ordering::Greater, (true, false) => std::cmp::Ordering::Less, (false, false) => a.mag.cmp(&b.mag), (true, true) => b.mag.cmp(&a.mag) }
  }
}

/// What the property allows a scalar result to be.
#[derive(Clone, Debug)]
pub enum Exp {
  Exact(CVal),
  OneOf(Vec<CVal>),
  /// f64 result within `ulps` of the given value (pow)
  NearF64(f64, u64),
  NearF32(f32, u32),
  /// the property does not constrain the result (value or error)
  Free,
}

impl Exp {
  pub fn admits(&self, got: &CVal) -> bool {
    match self {
      Exp::Exact(v) => v == got,
      Exp::OneOf(vs) => vs.iter().any(|v| v == got),
      Exp::Free => true,
      Exp::NearF64(x, u) => match got { CVal::S(k, Sc::F64(b)) if k == "f64" => near_f64(*x, f64::from_bits(*b), *u), _ => false },
      Exp::NearF32(x, u) => match got { CVal::S(k, Sc::F32(b)) if k == "f32" => near_f32(*x, f32::from_bits(*b), *u), _ => false },
    }
  }
  pub fn show(&self) -> String {
    match self { Exp::Exact(v) => v.show(), Exp::OneOf(v) => format!("one of {}", v.iter().map(|x| x.show()).collect::<Vec<_>>().join(" | ")), Exp::NearF64(x, u) => format!("{:?}±{}ulp", x, u), Exp::NearF32(x, u) => format!("{:?}±{}ulp", x, u), Exp::Free => "unconstrained".into() }
  }
}

fn ord_f64(x: f64) -> i128 { let b = x.to_bits() as i64; (if b < 0 { i64::MIN.wrapping_sub(b) } else { b }) as i128 }
pub fn near_f64(a: f64, b: f64, ulps: u64) -> bool {
  if a.is_nan() || b.is_nan() { return a.is_nan() && b.is_nan(); }
  if a == b { return true; }
  (ord_f64(a) - ord_f64(b)).unsigned_abs() <= ulps as u128
}
fn ord_f32(x: f32) -> i64 { let b = x.to_bits() as i32; (if b < 0 { i32::MIN.wrapping_sub(b) } else { b }) as i64 }
pub fn near_f32(a: f32, b: f32, ulps: u32) -> bool {
  if a.is_nan() || b.is_nan() { return a.is_nan() && b.is_nan(); }
  if a == b { return true; }
  (ord_f32(a) - ord_f32(b)).unsigned_abs() <= ulps as u64
}

fn gcd(a: i128, b: i128) -> i128 { let (mut a, mut b) = (a.abs(), b.abs()); while b != 0 { let t = a % b; a = b; b = t; } a }
/// reduced rational in i64 if it fits
pub fn rat(n: i128, d: i128) -> Option<CVal> {
  if d == 0 { return None; }
  let g = gcd(n, d).max(1);
  let (mut n, mut d) = (n / g, d / g);
  if d < 0 { n = -n; d = -d; }
  if n < i64::MIN as i128 || n > i64::MAX as i128 || d > i64::MAX as i128 { return None; }
  Some(sc_r(n as i64, d as i64))
}

pub const BINOPS: [&str; 15] = ["+", "-", "*", "/", "%", "^", "==", "!=", "<", "<=", ">", ">=", "&&", "||", "⊻"];
pub const UNOPS: [&str; 2] = ["neg", "not"];

pub fn is_cmp(op: &str) -> bool { matches!(op, "==" | "!=" | "<" | "<=" | ">" | ">=") }
pub fn is_logic(op: &str) -> bool { matches!(op, "&&" | "||" | "⊻" | "not") }

fn cmp_res(op: &str, o: Option<std::cmp::Ordering>) -> Exp {
  use std::cmp::Ordering::*;
  let r = match (op, o) {
    ("==", Some(Equal)) => true, ("==", _) => false,
    ("!=", Some(Equal)) => false, ("!=", _) => true,
    ("<", Some(Less)) => true, ("<", _) => false,
    ("<=", Some(Less)) | ("<=", Some(Equal)) => true, ("<=", _) => false,
    (">", Some(Greater)) => true, (">", _) => false,
    (">=", Some(Greater)) | (">=", Some(Equal)) => true, (">=", _) => false,
    _ => return Exp::Free,
  };
  Exp::Exact(sc_b(r))
}

/// Reference result of `a op b` on scalars of one kind, as far as the property constrains it.
pub fn ref_binop(op: &str, k: &str, a: &Sc, b: &Sc) -> Exp {
  if is_int(k) {
    let (x, y) = match (Big::from_sc(a), Big::from_sc(b)) { (Some(x), Some(y)) => (x, y), _ => return Exp::Free };
    let fit = |r: Option<Big>| match r { Some(r) if r.fits(k) => Exp::Exact(r.to_cval(k)), _ => Exp::Free };
    return match op {
      "+" => fit(x.add(y)),
      "-" => fit(x.sub(y)),
      "*" => fit(x.mul(y)),
      "/" => {
        if y.mag == 0 { return Exp::Free; }
        let q = x.mag / y.mag; let r = x.mag % y.mag;
        let neg = x.neg != y.neg;
        if r == 0 { fit(Some(Big { neg, mag: q })) }
        else {
          // between floor and ceiling of the exact quotient
          let lo = Big { neg, mag: q }.norm();
          let hi = Big { neg, mag: q + 1 }.norm();
          let mut v = vec![];
          if lo.fits(k) { v.push(lo.to_cval(k)); }
          if hi.fits(k) { v.push(hi.to_cval(k)); }
          if v.is_empty() { Exp::Free } else { Exp::OneOf(v) }
        }
      }
      "%" => {
        if y.mag == 0 { return Exp::Free; }
        let r = x.mag % y.mag;
        // truncated remainder has the sign of x; floored has the sign of y; euclidean is non-negative
        let mut v = vec![];
        let t = Big { neg: x.neg, mag: r }.norm();
        if t.fits(k) { v.push(t.to_cval(k)); }
        if r != 0 {
          let other = Big { neg: !x.neg, mag: y.mag - r }.norm();
          if other.fits(k) { v.push(other.to_cval(k)); }
        }
        Exp::OneOf(v)
      }
      "^" => {
        if y.neg { return Exp::Free; }
        let mut acc = Some(Big { neg: false, mag: 1 });
        let mut e = y.mag;
        if e > 300 { // only 0,1,-1 bases stay representable
          if x.mag > 1 { return Exp::Free; }
        }
        let mut i = 0u128;
        while i < e.min(300) { acc = acc.and_then(|a| a.mul(x)); if acc.is_none() { break; } i += 1; }
        if e > 300 { e = e % 2; acc = if x.mag == 0 { Some(Big { neg: false, mag: 0 }) } else if x.neg && e == 1 { Some(Big { neg: true, mag: 1 }) } else { Some(Big { neg: false, mag: 1 }) }; }
        fit(acc)
      }
      "==" | "!=" | "<" | "<=" | ">" | ">=" => cmp_res(op, Some(x.cmp(y))),
      _ => Exp::Free,
    };
  }
  match (k, a, b) {
    ("f64", Sc::F64(x), Sc::F64(y)) => {
      let (x, y) = (f64::from_bits(*x), f64::from_bits(*y));
      match op {
        "+" => Exp::Exact(sc_f64(x + y)),
        "-" => Exp::Exact(sc_f64(x - y)),
        "*" => Exp::Exact(sc_f64(x * y)),
        "/" => Exp::Exact(sc_f64(x / y)),
        "%" => { let fm = x % y; let ieee = ieee_rem_f64(x, y); let mut v = vec![sc_f64(fm)]; if let Some(r) = ieee { v.push(sc_f64(r)); } if fm != 0.0 && !fm.is_nan() { v.push(sc_f64(fm + y)); v.push(sc_f64(fm - y)); } Exp::OneOf(v) }
        "^" => Exp::NearF64(x.powf(y), 1),
        _ if is_cmp(op) => cmp_res(op, x.partial_cmp(&y)),
        _ => Exp::Free,
      }
    }
    ("f32", Sc::F32(x), Sc::F32(y)) => {
      let (x, y) = (f32::from_bits(*x), f32::from_bits(*y));
      match op {
        "+" => Exp::Exact(sc_f32(x + y)),
        "-" => Exp::Exact(sc_f32(x - y)),
        "*" => Exp::Exact(sc_f32(x * y)),
        "/" => Exp::Exact(sc_f32(x / y)),
        "%" => { let fm = x % y; let mut v = vec![sc_f32(fm)]; if fm != 0.0 && !fm.is_nan() { v.push(sc_f32(fm + y)); v.push(sc_f32(fm - y)); } Exp::OneOf(v) }
        "^" => Exp::NearF32(x.powf(y), 1),
        _ if is_cmp(op) => cmp_res(op, x.partial_cmp(&y)),
        _ => Exp::Free,
      }
    }
    ("r64", Sc::R(an, ad), Sc::R(bn, bd)) => {
      let (an, ad, bn, bd) = (*an as i128, *ad as i128, *bn as i128, *bd as i128);
      let ex = |r: Option<CVal>| r.map(Exp::Exact).unwrap_or(Exp::Free);
      match op {
        "+" => ex(rat(an * bd + bn * ad, ad * bd)),
        "-" => ex(rat(an * bd - bn * ad, ad * bd)),
        "*" => ex(rat(an * bn, ad * bd)),
        "/" => if bn == 0 { Exp::Free } else { ex(rat(an * bd, ad * bn)) },
        _ if is_cmp(op) => cmp_res(op, Some((an * bd).cmp(&(bn * ad)))),
        _ => Exp::Free,
      }
    }
    ("c64", Sc::C(ar, ai), Sc::C(br, bi)) => {
      let (ar, ai, br, bi) = (f64::from_bits(*ar), f64::from_bits(*ai), f64::from_bits(*br), f64::from_bits(*bi));
      match op {
        "+" => Exp::Exact(sc_c(ar + br, ai + bi)),
        "-" => Exp::Exact(sc_c(ar - br, ai - bi)),
        "==" => Exp::Exact(sc_b(ar == br && ai == bi)),
        "!=" => Exp::Exact(sc_b(!(ar == br && ai == bi))),
        _ => Exp::Free,
      }
    }
    ("bool", Sc::B(x), Sc::B(y)) => match op {
      "&&" => Exp::Exact(sc_b(*x && *y)),
      "||" => Exp::Exact(sc_b(*x || *y)),
      "⊻" => Exp::Exact(sc_b(*x != *y)),
      "==" => Exp::Exact(sc_b(x == y)),
      "!=" => Exp::Exact(sc_b(x != y)),
      _ => Exp::Free,
    },
    ("string", Sc::S(x), Sc::S(y)) => match op {
      "==" => Exp::Exact(sc_b(x == y)),
      "!=" => Exp::Exact(sc_b(x != y)),
      _ => Exp::Free,
    },
    _ => Exp::Free,
  }
}

fn ieee_rem_f64(x: f64, y: f64) -> Option<f64> {
  if !x.is_finite() || y == 0.0 || y.is_nan() { return None; }
  if y.is_infinite() { return Some(x); }
  let n = (x / y).round(); // ties away; good enough as an *additional* accepted value
  let r = x - n * y;
  if r.is_finite() { Some(r) } else { None }
}

pub fn ref_unop(op: &str, k: &str, a: &Sc) -> Exp {
  match (op, k, a) {
    ("neg", _, _) if is_int(k) => { let x = Big::from_sc(a).unwrap().negate(); if x.fits(k) { Exp::Exact(x.to_cval(k)) } else { Exp::Free } }
    ("neg", "f64", Sc::F64(x)) => Exp::Exact(sc_f64(-f64::from_bits(*x))),
    ("neg", "f32", Sc::F32(x)) => Exp::Exact(sc_f32(-f32::from_bits(*x))),
    ("neg", "r64", Sc::R(n, d)) => rat(-(*n as i128), *d as i128).map(Exp::Exact).unwrap_or(Exp::Free),
    ("neg", "c64", Sc::C(r, i)) => Exp::Exact(sc_c(-f64::from_bits(*r), -f64::from_bits(*i))),
    ("not", "bool", Sc::B(x)) => Exp::Exact(sc_b(!*x)),
    _ => Exp::Free,
  }
}

// ---------------------------------------------------------------------------------------------
// value pools

/// A "benign" value for kind k derived from a small integer n (distinct n give distinct values).
pub fn small_val(k: &str, n: i64) -> Sc {
  match k {
    _ if is_unsigned(k) => Sc::U(n.unsigned_abs() as u128),
    _ if is_signed(k) => Sc::I(n as i128),
    "f64" => Sc::f64(n as f64 + if n % 2 == 0 { 0.5 } else { 0.25 }),
    "f32" => Sc::f32(n as f32 + if n % 2 == 0 { 0.5 } else { 0.25 }),
    "r64" => { let c = rat(n as i128 * 2 + 1, 2 + (n.rem_euclid(3)) as i128).unwrap(); if let CVal::S(_, s) = c { s } else { unreachable!() } }
    "c64" => Sc::C(canon_f64(n as f64), canon_f64((n + 1) as f64 * 0.5)),
    "bool" => Sc::B(n % 2 != 0),
    "string" => Sc::S(format!("s{}", n)),
    _ => panic!("small_val kind {}", k),
  }
}

pub fn boundary_pool(k: &str) -> Vec<Sc> {
  match k {
    _ if is_unsigned(k) => { let m = int_max_u(k); vec![Sc::U(0), Sc::U(1), Sc::U(2), Sc::U(m), Sc::U(m - 1), Sc::U(m / 2), Sc::U(m / 2 + 1)] }
    _ if is_signed(k) => { let m = int_max_u(k) as i128; let lo = int_min(k); vec![Sc::I(0), Sc::I(1), Sc::I(-1), Sc::I(2), Sc::I(m), Sc::I(m - 1), Sc::I(lo), Sc::I(lo + 1)] }
    "f64" => [0.0, -0.0, 1.0, -1.0, 0.1, 0.5, 2.0, 3.0, 9007199254740992.0, 9007199254740993.0, f64::MAX, f64::MIN_POSITIVE, 5e-324, f64::INFINITY, f64::NEG_INFINITY, f64::NAN, 1e308, -2.5].iter().map(|x| Sc::f64(*x)).collect(),
    "f32" => [0.0f32, -0.0, 1.0, -1.0, 0.1, 0.5, 2.0, 3.0, 16777216.0, 16777217.0, f32::MAX, f32::MIN_POSITIVE, 1e-45, f32::INFINITY, f32::NEG_INFINITY, f32::NAN, -2.5].iter().map(|x| Sc::f32(*x)).collect(),
    "r64" => vec![Sc::R(0, 1), Sc::R(1, 1), Sc::R(-1, 1), Sc::R(1, 2), Sc::R(-3, 4), Sc::R(7, 3), Sc::R(1000003, 7), Sc::R(5, 1000003)],
    "c64" => vec![Sc::C(canon_f64(0.0), canon_f64(0.0)), Sc::C(canon_f64(1.0), canon_f64(0.0)), Sc::C(canon_f64(0.0), canon_f64(1.0)), Sc::C(canon_f64(-2.0), canon_f64(3.5)), Sc::C(canon_f64(1.5), canon_f64(-0.5))],
    "bool" => vec![Sc::B(false), Sc::B(true)],
    "string" => vec![Sc::S("".into()), Sc::S("a".into()), Sc::S("ab".into()), Sc::S("é✓".into()), Sc::S("a b".into())],
    _ => panic!("pool kind {}", k),
  }
}

/// random value of kind k; `benign` keeps magnitudes small enough that + - * stay representable
pub fn rand_val(k: &str, rng: &mut Rng, benign: bool) -> Sc {
  if !benign && rng.chance(1, 3) { let p = boundary_pool(k); return rng.pick(&p).clone(); }
  match k {
    _ if is_unsigned(k) => { let hi = if benign { 11.min(int_max_u(k)) } else { int_max_u(k) }; Sc::U(if hi == u128::MAX { ((rng.next() as u128) << 64) | rng.next() as u128 } else { (((rng.next() as u128) << 64) | rng.next() as u128) % (hi + 1) }) }
    _ if is_signed(k) => { if benign { Sc::I(rng.range(-9, 11) as i128) } else { let m = int_max_u(k); let mag = (((rng.next() as u128) << 64) | rng.next() as u128) % (m + 1); Sc::I(if rng.chance(1, 2) { -(mag as i128) } else { mag as i128 }) } }
    "f64" => { if benign { Sc::f64(rng.range(-40, 40) as f64 / 4.0) } else { Sc::f64(f64::from_bits(rng.next())) } }
    "f32" => { if benign { Sc::f32(rng.range(-40, 40) as f32 / 4.0) } else { Sc::f32(f32::from_bits(rng.next() as u32)) } }
    "r64" => { let d = rng.range(1, 9) as i128; let n = rng.range(-20, 20) as i128; if let CVal::S(_, s) = rat(n, d).unwrap() { s } else { unreachable!() } }
    "c64" => Sc::C(canon_f64(rng.range(-12, 12) as f64 / 2.0), canon_f64(rng.range(-12, 12) as f64 / 2.0)),
    "bool" => Sc::B(rng.chance(1, 2)),
    "string" => { let n = rng.below(4); Sc::S((0..n).map(|_| *rng.pick(&['a', 'b', 'c', 'é', ' ', 'Z'])).collect()) }
    _ => panic!("rand kind {}", k),
  }
}
