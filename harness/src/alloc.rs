//! Counting global allocator: records the largest single request and the peak live bytes of the current window,
//! and refuses (returns null) requests above a hard cap so that an attacker-controlled size is observed as an
//! event instead of as an out-of-memory kill of the checker.

use std::alloc::{GlobalAlloc, Layout, System};
use std::sync::atomic::{AtomicBool, AtomicUsize, Ordering::Relaxed};

pub struct Counting;

static TRACK: AtomicBool = AtomicBool::new(false);
static MAX_REQ: AtomicUsize = AtomicUsize::new(0);
static LIVE: AtomicUsize = AtomicUsize::new(0);
static PEAK: AtomicUsize = AtomicUsize::new(0);
static HARD_CAP: AtomicUsize = AtomicUsize::new(usize::MAX);
static REFUSED: AtomicUsize = AtomicUsize::new(0);

unsafe impl GlobalAlloc for Counting {
  unsafe fn alloc(&self, l: Layout) -> *mut u8 {
    if TRACK.load(Relaxed) {
      let sz = l.size();
      MAX_REQ.fetch_max(sz, Relaxed);
      if sz > HARD_CAP.load(Relaxed) { REFUSED.fetch_max(sz, Relaxed); note_refused(sz); return std::ptr::null_mut(); }
      let live = LIVE.fetch_add(sz, Relaxed) + sz; PEAK.fetch_max(live, Relaxed);
    }
    System.alloc(l)
  }
  unsafe fn alloc_zeroed(&self, l: Layout) -> *mut u8 {
    if TRACK.load(Relaxed) {
      let sz = l.size();
      MAX_REQ.fetch_max(sz, Relaxed);
      if sz > HARD_CAP.load(Relaxed) { REFUSED.fetch_max(sz, Relaxed); note_refused(sz); return std::ptr::null_mut(); }
      let live = LIVE.fetch_add(sz, Relaxed) + sz; PEAK.fetch_max(live, Relaxed);
    }
    System.alloc_zeroed(l)
  }
  unsafe fn dealloc(&self, p: *mut u8, l: Layout) {
    if TRACK.load(Relaxed) { let _ = LIVE.fetch_update(Relaxed, Relaxed, |v| Some(v.saturating_sub(l.size()))); }
    System.dealloc(p, l)
  }
  unsafe fn realloc(&self, p: *mut u8, l: Layout, new: usize) -> *mut u8 {
    if TRACK.load(Relaxed) {
      MAX_REQ.fetch_max(new, Relaxed);
      if new > HARD_CAP.load(Relaxed) { REFUSED.fetch_max(new, Relaxed); note_refused(new); return std::ptr::null_mut(); }
      if new > l.size() { let live = LIVE.fetch_add(new - l.size(), Relaxed) + new - l.size(); PEAK.fetch_max(live, Relaxed); }
    }
    System.realloc(p, l, new)
  }
}

fn note_refused(sz: usize) {
  // async-signal-safe-ish note on stderr so the driver can classify the abort that follows
  let msg = b"VERIF-ALLOC refused request above the hard cap\n";
  unsafe { libc::write(2, msg.as_ptr() as *const libc::c_void, msg.len()); }
  let _ = sz;
}

/// start a measurement window
pub fn begin(hard_cap: usize) { MAX_REQ.store(0, Relaxed); LIVE.store(0, Relaxed); PEAK.store(0, Relaxed); HARD_CAP.store(hard_cap, Relaxed); TRACK.store(true, Relaxed); }
/// end the window: (largest single request, peak live bytes allocated inside the window)
pub fn end() -> (usize, usize) { TRACK.store(false, Relaxed); HARD_CAP.store(usize::MAX, Relaxed); (MAX_REQ.load(Relaxed), PEAK.load(Relaxed)) }
